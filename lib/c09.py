"""C09 - a precompiled profile is equivalent to its source and is reusable."""
import json
import os
import time

import corpus
import proto
import vlib

EX = corpus.EX


def n(i, **kw):
    return corpus.node(i, **kw)


DOCS = {
    "pass": json.dumps([n(1, p="x", q="ok", child=[{"@id": "http://example.org/n2"}]), n(2, p="y", q="ok")]),
    "fail1": json.dumps([n(1, q="ok", child=[{"@id": "http://example.org/n2"}]), n(2, p="y", q="ok")]),
    "fail3": json.dumps([n(1), n(2, q="toolong"), n(3, q="ok"), n(4, p=1, q="x")]),
    "failNested": json.dumps([n(1, p="x", q="zz", child=[{"@id": "http://example.org/n2"}, {"@id": "http://example.org/n3"}]),
                              n(2, q="ok"), n(3, q="ok")]),
    "noNodes": "{}",
    "notJson": '[{"@id": "http://example.org/n1"',
    "ldReject": '{"@context": 5, "@id": "http://example.org/n1"}',
    "ldPanic": corpus.LD_PANIC_DOCS[0],
    # not JSON, several read buffers long, the error is in its first bytes (a RAML source passed by mistake)
    # a complete JSON value followed by another one (whatever the library makes of it, it makes the same of it everywhere)
    "passThenMore": json.dumps([n(1, p="x", q="ok")]) + "\n{\"extra\": true}\n",
    "notJsonLong": "#%RAML 1.0\ntitle: passed by mistake\n" + "".join("/resource%d:\n  get:\n    description: not JSON-LD at all\n" % i for i in range(60)),
}
DCLASS = {"pass": "ok", "fail1": "ok", "fail3": "ok", "failNested": "ok", "noNodes": "okNoNodes",
          "notJson": "notJson", "ldReject": "ldReject", "ldPanic": "ldReject", "notJsonLong": "notJson", "passThenMore": "unknown"}
LEXICAL_PROFILE = None


def profiles():
    out = {"flat": corpus.OK_PROFILE, "nested": corpus.OK_PROFILE_NESTED}
    fx = [(p, d, name) for p, d, name in corpus.fixture_pairs() if "tck/nested/nested-or" in name or "tck/or/or-nested" in name]
    return out, fx


def run(tier):
    try:
        return run_(tier)
    except vlib.Blocked as e:
        V = vlib.Verdict("C09")
        V.disagree("entry points block after earlier calls failed in the same process", {"harness_report": str(e),
                   "history": "the warm-up calls of harness/cmd/acvh/warmup.go, then a valid compile + validate"})
        vlib.write_evidence("C09", tier, {"states": 1, "transitions": 1, "traces_validated_against_impl": 0,
                                          "samples": [str(e)], "evaluations": 1, "distinct_nontrivial": 0}, 0.0, violations=1)
        return V.finish()


def run_(tier):
    t0 = time.time()
    V = vlib.Verdict("C09")
    rnd = vlib.rng(9)
    mc = proto.model_check("ACV_protocol", "ACV protocol model (HistoryIndependent, HandlesOnlyGrowByCompile)")
    neg = proto.negative_control("LeakHandleState", ["HistoryIndependent", "HandlesOnlyGrowByCompile"])
    maxlen = 3 if tier == "quick" else 5
    kinds = sorted(k for k in DOCS if k != "notJson")      # the long non-JSON text stands for the class
    if tier == "quick":
        kinds = ["fail1", "fail3", "ldPanic", "noNodes", "notJsonLong", "pass", "passThenMore"]
    cfg = ("INIT HInit\nNEXT HNext\nINVARIANT Emit\nCONSTANTS\n  DocKinds = {%s}\n  ProfKinds = {\"flat\", \"nested\"}\n  MaxLen = %d\n"
           % (", ".join('"%s"' % k for k in kinds), maxlen))
    gen = vlib.run_tlc("ACVHist", "ACVHist", cfg, workers=4, timeout=300)
    vlib.tlc_must_pass(gen, "ACVHist")
    hs = vlib.cases_from_prints(gen)
    profs, fx = profiles()
    cases = []
    for hcase in hs:
        steps = hcase["steps"]
        cases.append({"profile": profs[hcase["prof"]], "pkey": hcase["prof"], "docs": DOCS, "dclasses": DCLASS,
                      "fresh": sorted(set(steps)), "steps": steps, "handles": [0] * len(steps),
                      "varyCfg": len(cases) % 4 == 0})
    # (B) long random histories, two handles interleaved, fixture profiles with their own data
    nlong = 6 if tier == "quick" else 60
    for i in range(nlong):
        pk = rnd.choice(sorted(profs))
        steps = [rnd.choice(sorted(DOCS)) for _ in range(60 if tier == "quick" else 200)]
        cases.append({"profile": profs[pk], "pkey": pk, "docs": DOCS, "dclasses": DCLASS, "fresh": sorted(set(steps)),
                      "steps": steps, "handles": [rnd.randrange(2) for _ in steps], "varyCfg": True})
    # (B') revisiting histories, whatever the random ones look like: k documents, all of them again, a newcomer, all of
    # them once more (anything that remembers the last k inputs is filled, hit, overflowed and queried again)
    readable = ["fail1", "fail3", "failNested", "noNodes", "pass"]
    for pk in sorted(profs):
        for k in (1, 2, 3, 4):
            for rot in range(2):
                ds = readable[rot:] + readable[:rot]
                steps = ds[:k] * 2 + [ds[k]] + ds[:k] + ["notJsonLong"] + ds[:k + 1]
                cases.append({"profile": profs[pk], "pkey": pk, "docs": DOCS, "dclasses": DCLASS, "fresh": sorted(set(steps)),
                              "steps": steps, "handles": [0] * len(steps), "varyCfg": False})
    for p, d, name in fx[: (2 if tier == "quick" else 10)]:
        docs = dict(DOCS)
        docs["own"] = d
        dcl = dict(DCLASS)
        dcl["own"] = "unknown"
        steps = [rnd.choice(["own", "own", "pass", "notJsonLong", "noNodes", "fail3"]) for _ in range(12)]
        cases.append({"profile": p, "pkey": name, "docs": docs, "dclasses": dcl, "fresh": sorted(set(steps)),
                      "steps": steps, "handles": [rnd.randrange(2) for _ in steps]})
    cases.extend(script_cases(rnd, 2 if tier == "quick" else 12))
    for i, c in enumerate(cases):
        c["id"] = "c09-%05d" % i
        c.setdefault("steps", [x.get("dkey", "") for x in c.get("script", [])])
        c.setdefault("pkey", "script")
    obs = vlib.run_harness("history", cases, "c09")
    fresh_refs = fresh_process_references(profs, kinds)
    skipped = [o for o in obs if o.get("skipped") and "poisoned" not in o["skipped"]]
    if skipped:
        raise vlib.Infra("history cases skipped: %s" % skipped[0])
    # every history starts with what a validation of the same texts returned in a process of its own (no history at
    # all, not even the harness warm-up): the trace spec binds the report of each key to that value
    for o in obs:
        c = next((x for x in cases if x["id"] == o["id"]), None)
        if c is None or c.get("script") or c["pkey"] not in profs:
            continue
        keys = sorted(set(x["dkey"] for x in o["calls"] if x.get("dkey")))
        pre = []
        for k in keys:
            ref = fresh_refs.get((c["pkey"], k))
            if ref:
                pre.append(dict(ref, pkey=c["pkey"], dkey=k, dclass=DCLASS.get(k.split("@")[0], "unknown")))
        o["calls"] = pre + o["calls"]
    lines, byid = proto.to_trace(obs, "C09")
    rejected, tr = proto.validate_trace("c09", lines, timeout=1500)
    bycase = {c["id"]: c for c in cases}
    for rid in sorted(rejected):
        o = byid[rid]
        c = bycase[rid]
        seq = []
        for x in o["calls"]:
            seq.append("%s(%s)=%s:%s" % (x["entry"], x.get("dkey", ""), x["kind"], x.get("sha", "")[:6]))
        V.disagree("history %s over %s" % (c["pkey"], ",".join(c["steps"][:8])),
                   {"case": {k: c[k] for k in ("profile", "pkey", "fresh", "steps", "handles")}, "observed": seq})
    selftest(lines, set(rejected))
    rc = V.finish()
    nsteps = sum(len(c["steps"]) for c in cases)
    vlib.write_evidence("C09", tier, {
        "states": mc.distinct + tr.distinct, "transitions": mc.generated + tr.generated,
        "traces_validated_against_impl": len(byid),
        "evaluations": nsteps, "distinct_nontrivial": len(hs),
        "rule": "all histories of length <= %d over %d document kinds x 2 profiles enumerated by TLC (ACVHist.tla), each run "
                "through ONE compiled handle next to fresh ValidateWithConfiguration calls under a fixed clock; plus %d long "
                "random histories over two interleaved handles and fixture profiles; distinct = distinct enumerated histories; "
                "the trace spec binds report hash per (profile, doc) on first observation and requires every later call - "
                "fresh or through a handle, whatever came before - to return the same bytes"
                % (maxlen, len(kinds), nlong),
        "exhaustive": True,
        "samples": [{"profile": c["pkey"], "steps": c["steps"][:10],
                     "observed": ["%s:%s" % (x["kind"], x.get("sha", "")[:8]) for x in byid[c["id"]]["calls"]][:14]}
                    for c in cases[:: max(1, len(cases) // 5)] if c["id"] in byid][:5],
        "checker_cmd": tr.cmd, "negative_control": "LeakHandleState -> %s" % neg.violated,
        "rejected": len(rejected), "known_findings_hit": sorted(V.known_hits),
    }, time.time() - t0, violations=len(V.violations))
    return rc


SHADOW_B = """#%Validation Profile 1.0
profile: uses built-in prefixes
prefixes:
  ex: http://example.org/ns#
violation:
  - named
validations:
  named:
    targetClass: ex.T
    message: core name required
    propertyConstraints:
      core.name:
        minCount: 1
      shapes.schema / shacl.name:
        maxCount: 1
"""
SHADOW_A = """#%Validation Profile 1.0
profile: redefines built-in prefixes
prefixes:
  ex: http://example.org/ns#
  core: http://example.org/other-core#
  shapes: http://example.org/other-shapes#
  shacl: http://example.org/other-shacl#
violation:
  - named
validations:
  named:
    targetClass: ex.T
    message: other core name required
    propertyConstraints:
      core.name:
        minCount: 1
      shapes.schema / shacl.name:
        maxCount: 1
"""
SHADOW_DOCS = {
    "amf": json.dumps([{"@id": "http://example.org/n1", "@type": ["http://example.org/ns#T"],
                        "http://a.ml/vocabularies/core#name": "x"}]),
    "other": json.dumps([{"@id": "http://example.org/n1", "@type": ["http://example.org/ns#T"],
                          "http://example.org/other-core#name": "x"}]),
}


def script_cases(rnd, n):
    """profiles that redefine built-in prefixes compiled between uses of a profile that relies on them"""
    out = []
    for i in range(n):
        script = [{"op": "compile", "pkey": "B", "handle": "hB1"}, {"op": "validateCompiled", "handle": "hB1", "dkey": "amf"},
                  {"op": "validateCompiled", "handle": "hB1", "dkey": "other"}]
        pool = [{"op": "validate", "pkey": "A", "dkey": "amf"}, {"op": "validate", "pkey": "A", "dkey": "other"},
                {"op": "compile", "pkey": "A", "handle": "hA"}, {"op": "validate", "pkey": "B", "dkey": "amf"},
                {"op": "validate", "pkey": "B", "dkey": "other"}, {"op": "compile", "pkey": "B", "handle": "hB2"},
                {"op": "validateCompiled", "handle": "hB2", "dkey": "amf"}, {"op": "validateCompiled", "handle": "hB1", "dkey": "amf"},
                {"op": "validateCompiled", "handle": "hA", "dkey": "other"}, {"op": "validateCompiled", "handle": "hA", "dkey": "amf"},
                {"op": "validateCompiled", "handle": "hB2", "dkey": "other"}]
        script += pool if i == 0 else pool[:3] + rnd.sample(pool[3:], len(pool) - 3)
        script = [op for k, op in enumerate(script)
                  if op["op"] != "validateCompiled" or any(p["op"] == "compile" and p.get("handle") == op["handle"] for p in script[:k])]
        out.append({"profile": "", "profiles": {"A": SHADOW_A, "B": SHADOW_B}, "docs": SHADOW_DOCS,
                    "dclasses": {"amf": "ok", "other": "ok"}, "fresh": [], "handles": [], "script": script})
    return out


def fresh_process_references(profs, kinds):
    """(profile key, doc@cfg) -> observed call, each computed by a harness process that does nothing else"""
    from concurrent.futures import ThreadPoolExecutor
    import subprocess
    exe = vlib.build_harness()
    d = os.path.join(vlib.BUILD, "run", "c09_fresh")
    os.makedirs(d, exist_ok=True)
    jobs = []
    for pk, ptext in sorted(profs.items()):
        for k in kinds:
            for cn in ("", "alt", "altLex", "altRep", "noDate", "emptyIris", "emptyLex"):
                jobs.append((pk, ptext, k, cn))

    def one(j):
        pk, ptext, k, cn = jobs[j]
        inp, outp = os.path.join(d, "in%d.ndjson" % j), os.path.join(d, "out%d.ndjson" % j)
        vlib.write_ndjson(inp, [{"id": "fresh", "profile": ptext, "pkey": pk, "docs": {k: DOCS[k]}, "dclasses": DCLASS,
                                 "fresh": [k], "steps": [], "handles": [], "varyCfg": True, "onlyCfg": cn}])
        p = subprocess.run(["timeout", "300", exe, "history", inp, outp], capture_output=True, text=True,
                           env=dict(os.environ, ACVH_NO_WARMUP="1"))
        if p.returncode != 0:
            raise vlib.Infra("fresh reference process failed: %s" % p.stderr[-500:])
        return pk, vlib.read_ndjson(outp)[0]
    refs = {}
    with ThreadPoolExecutor(max_workers=vlib.NCPU) as ex:
        for pk, o in ex.map(one, range(len(jobs))):
            for call in o["calls"]:
                if call["entry"] == "validate" and call.get("dkey"):
                    refs[(pk, call["dkey"])] = {"entry": "validate", "events": [], "kind": call["kind"], "closed": False,
                                               "hasChan": False, "sha": call.get("sha", ""), "conforms": call.get("conforms"),
                                               "timesOK": True}
    return refs


def selftest(lines, rejected=frozenset()):
    """Corrupt the hash of one report returned through the handle: the case must be rejected."""
    import copy
    start = 0
    seg = None
    for i, ln in enumerate(lines):
        if ln["e"] == "end":
            cand = lines[start:i + 1]
            if ln["id"] in rejected:
                start = i + 1
                continue
            if sum(1 for x in cand if x["e"] == "ret" and x["kind"] == "report" and x["key"]) >= 3:
                seg = copy.deepcopy(cand)
                break
            start = i + 1
    if seg is None:
        if rejected:
            return      # every candidate history is itself rejected: the verdict stands without the self-test
        raise vlib.Infra("selftest: no history with three reports")
    bad = copy.deepcopy(seg)
    rets = [x for x in bad if x["e"] == "ret" and x["kind"] == "report" and x["key"]]
    rets[-1]["sha"] = "0000000000000000"
    out = []
    for name, v in (("original", seg), ("corrupted", bad)):
        base = len(out)
        for x in v:
            x["id"] = name
            x["nx"] = base + len(v) + 1
        out.extend(v)
    rejected, _ = proto.validate_trace("c09_selftest", out)
    if set(rejected) != {"corrupted"}:
        raise vlib.Infra("C09 trace self-test failed: rejected=%s" % sorted(rejected))


def replay(path):
    doc = json.load(open(path))
    c = dict(doc["case"]["case"])
    c.update({"id": "replay-0", "docs": DOCS, "dclasses": DCLASS})
    obs = vlib.run_harness("history", [c], "replay_c09", shards=1)
    lines, byid = proto.to_trace(obs, "C09")
    rejected, _ = proto.validate_trace("replay_c09", lines)
    print(json.dumps([(x["entry"], x.get("dkey"), x["kind"], x.get("sha")) for x in obs[0]["calls"]]))
    if rejected:
        print("VIOLATION property=C09 replay=%s" % path)
        return 1
    print("trace accepted by the specification")
    return 0
