"""C06 - same inputs, byte-identical report and byte-identical generated code."""
import hashlib
import json
import os
import subprocess
import time

import c09
import c15
import corpus
import vlib

DET_CFG = "SPECIFICATION Spec\nCONSTANTS\n  NKeys = %d\n  Quantified = {%s}\n  DocumentOrder = %s\nINVARIANT SameCodeEveryRun\nCHECK_DEADLOCK FALSE\n"
TRCFG = "SPECIFICATION TSpec\nPOSTCONDITION Summary\nCHECK_DEADLOCK FALSE\n"


def quantified_profile(siblings, depth, extra_plain):
    """one mapping holding `siblings` quantified constraints (each nested `depth` deep) next to plain ones"""
    def chain(d, indent):
        pad = " " * indent
        if d == 0:
            return pad + "propertyConstraints:\n" + pad + "  ex.leaf:\n" + pad + "    minCount: 1\n"
        return (pad + "propertyConstraints:\n" + pad + "  ex.c%d:\n" % d + pad + "    nested:\n" + chain(d - 1, indent + 6))
    lines = ["#%Validation Profile 1.0", "profile: det s%d d%d" % (siblings, depth), "prefixes:", "  ex: http://example.org/ns#",
             "violation:", "  - v1", "validations:", "  v1:", "    targetClass: ex.T", "    message: m", "    propertyConstraints:"]
    for s in range(siblings):
        lines.append("      ex.child%d:" % s)
        lines.append("        nested:")
        lines.append(chain(depth - 1, 10).rstrip("\n"))
    for e in range(extra_plain):
        lines.append("      ex.plain%d:" % e)
        lines.append("        minCount: 1")
        lines.append("        pattern: ^a")
    return "\n".join(lines) + "\n"


DATA = json.dumps([
    {"@id": "http://example.org/n1", "@type": ["http://example.org/ns#T"],
     "http://example.org/ns#child0": [{"@id": "http://example.org/n2"}, {"@id": "http://example.org/n3"}],
     "http://example.org/ns#child1": [{"@id": "http://example.org/n3"}], "http://example.org/ns#child2": [{"@id": "http://example.org/n2"}],
     "http://example.org/ns#plain0": "zzz"},
    {"@id": "http://example.org/n2", "@type": ["http://example.org/ns#T"], "http://example.org/ns#c1": [{"@id": "http://example.org/n3"}],
     "http://example.org/ns#child3": [{"@id": "http://example.org/n1"}]},
    {"@id": "http://example.org/n3", "@type": ["http://example.org/ns#C"], "http://example.org/ns#c2": [{"@id": "http://example.org/n1"}]},
])


SM = "http://a.ml/vocabularies/document-source-maps#"
DUP_LEX_DATA = json.dumps(json.loads(DATA) + [
    {"@id": "http://example.org/n1/source-map", "@type": [SM + "SourceMap"], SM + "lexical": [{"@id": "http://example.org/n1/sm/e0"}]},
    {"@id": "http://example.org/n1/sm/e0", SM + "element": "http://example.org/n1", SM + "value": "[(1,2)-(3,4)]"},
    {"@id": "http://example.org/extra/source-map", "@type": [SM + "SourceMap"], SM + "lexical": [{"@id": "http://example.org/extra/sm/e0"}]},
    {"@id": "http://example.org/extra/sm/e0", SM + "element": "http://example.org/n1", SM + "value": "[(50,60)-(70,80)]"},
    {"@id": "http://example.org/zzz/source-map", "@type": [SM + "SourceMap"], SM + "lexical": [{"@id": "http://example.org/zzz/sm/e0"}]},
    {"@id": "http://example.org/zzz/sm/e0", SM + "element": "http://example.org/n1", SM + "value": "[(9,9)-(9,9)]"},
    {"@id": "amf://id/BaseUnitSourceInformation", "@type": ["http://a.ml/vocabularies/document#BaseUnitSourceInformation"],
     "http://a.ml/vocabularies/document#rootLocation": "file:///root.raml",
     "http://a.ml/vocabularies/document#additionalLocations": [{"@id": "amf://id/loc_0"}, {"@id": "amf://id/loc_1"}, {"@id": "amf://id/loc_2"}]},
    # the same element listed by several locations
    {"@id": "amf://id/loc_0", "@type": ["http://a.ml/vocabularies/document#LocationInformation"],
     "http://a.ml/vocabularies/document#location": "file:///lib-a.raml",
     "http://a.ml/vocabularies/document#elements": [{"@id": "http://example.org/n1"}, {"@id": "http://example.org/n2"}]},
    {"@id": "amf://id/loc_1", "@type": ["http://a.ml/vocabularies/document#LocationInformation"],
     "http://a.ml/vocabularies/document#location": "file:///lib-b.raml",
     "http://a.ml/vocabularies/document#elements": [{"@id": "http://example.org/n1"}]},
    {"@id": "amf://id/loc_2", "@type": ["http://a.ml/vocabularies/document#LocationInformation"],
     "http://a.ml/vocabularies/document#location": "file:///lib-c.raml",
     "http://a.ml/vocabularies/document#elements": [{"@id": "http://example.org/n2"}, {"@id": "http://example.org/n1"}]},
])


# lists that name a value twice, and the same validation listed twice in a level and under two levels: legal spellings
# in which something may be rebuilt from a set or a map
REPEATED_VALUES_PROFILE = """#%Validation Profile 1.0
profile: repeated values
prefixes:
  ex: http://example.org/ns#
violation:
  - methods
  - methods
  - tags
warning:
  - methods
validations:
  methods:
    targetClass: ex.T
    message: plain0 must be a method
    propertyConstraints:
      ex.plain0:
        in: [ get, put, post, delete, patch, head, options, get, trace, put ]
  tags:
    targetClass: ex.T
    message: tags
    propertyConstraints:
      ex.plain0:
        containsAll: [ b, a, c, b, d, e, a ]
        containsSome: [ x, y, z, x, w, v, u, y ]
"""


def deep_lexical_data():
    """a chain on which quantified constraints nested five deep fail at the bottom, every node with a lexical entry
    (ids of report nodes grow with the depth; locations add sibling sub-trees)"""
    ex = "http://example.org/ns#"
    g = []
    names = ["http://example.org/d%d" % i for i in range(8)]
    for i, nid in enumerate(names):
        node = {"@id": nid, "@type": [ex + "T"] if i == 0 else [ex + "C"]}
        if i + 1 < len(names):
            for prop in ("child0", "child1", "c1", "c2", "c3", "c4"):
                node[ex + prop] = [{"@id": names[i + 1]}]
        g.append(node)
        g.append({"@id": nid + "/source-map", "@type": [SM + "SourceMap"], SM + "lexical": [{"@id": nid + "/sm/e0"}]})
        g.append({"@id": nid + "/sm/e0", SM + "element": nid, SM + "value": "[(%d,1)-(%d,9)]" % (i + 1, i + 2)})
    g.append({"@id": "amf://id/BaseUnitSourceInformation", "@type": ["http://a.ml/vocabularies/document#BaseUnitSourceInformation"],
              "http://a.ml/vocabularies/document#rootLocation": "file:///deep.raml"})
    return json.dumps(g)


def run(tier):
    t0 = time.time()
    V = vlib.Verdict("C06")
    rnd = vlib.rng(6)
    quick = tier == "quick"
    states = trans = 0
    for nk, q in ((2, "1, 2"), (3, "1, 3"), (4, "1, 3, 4"), (5, "1, 2, 3, 4, 5")):
        r = vlib.run_tlc("det_%d" % nk, "Determinism", DET_CFG % (nk, q, "TRUE"), workers=2, timeout=300)
        vlib.tlc_must_pass(r, "Determinism design (document order)")
        states += r.distinct
        trans += r.generated
    neg = vlib.run_tlc("det_neg", "Determinism", DET_CFG % (3, "1, 3", "FALSE"), workers=2, timeout=300)
    if neg.violated != "SameCodeEveryRun":
        raise vlib.Infra("negative control (map iteration order) not refuted: %s %s" % (neg.violated, neg.error))
    inputs = []
    for s in (2, 3, 4):
        for d in (1, 2, 3):
            inputs.append(("quant-s%d-d%d" % (s, d), quantified_profile(s, d, 2), DATA))
    inputs.append(("duplicate-lexical-entries", quantified_profile(2, 1, 1), DUP_LEX_DATA))
    inputs.insert(1, ("deep-with-lexical", quantified_profile(2, 5, 1), deep_lexical_data()))
    inputs.insert(0, ("repeated-list-values", REPEATED_VALUES_PROFILE, DATA))
    inputs.append(("rich", c15.RICH_PROFILE, c15.RICH_DATA))
    inputs.append(("ok", corpus.OK_PROFILE, c09.DOCS["fail3"]))
    inputs.append(("nested", corpus.OK_PROFILE_NESTED, c09.DOCS["failNested"]))
    fx = [f for f in corpus.fixture_pairs() if len(f[1]) < 300000]
    rnd.shuffle(fx)
    for p, d, name in fx[: (10 if quick else 150)]:
        inputs.append((name, p, d))
    reps = 12 if quick else 40
    nproc = 3 if quick else 12
    rows = []
    for name, p, d in inputs:
        rows.append({"id": name, "profile": p, "data": d, "reps": reps, "goroutines": 8 if quick else 16, "tag": ""})
        for k in range(nproc):
            rows.append({"id": name, "profile": p, "data": d, "reps": 1, "goroutines": 0, "tag": "proc%d" % k})
    # copies of one input are adjacent, so round-robin sharding puts them in different processes
    try:
        obs = vlib.run_harness("determinism", rows, "c06", shards=vlib.NCPU, timeout=3000)
    except vlib.Infra as e:
        if "fatal error: concurrent map" not in str(e) or "amf-custom-validator/" not in str(e):
            raise
        # the Go runtime killed the process: the library read and wrote one of its maps from two validations at once
        V.disagree("the validator crashes when validations run concurrently (concurrent map access)", {"harness_stderr": str(e)[-3000:]})
        vlib.write_evidence("C06", tier, {"states": states, "transitions": trans, "traces_validated_against_impl": 0, "evaluations": len(rows),
                                          "distinct_nontrivial": 0, "samples": [str(e)[-500:]]}, time.time() - t0, violations=1)
        return V.finish()
    lines = []
    bad_inputs = set()
    for o in obs:
        if o.get("err"):
            bad_inputs.add(o["id"])
            continue
        lines.extend(o["rows"])
    lines = [ln for ln in lines if ln["key"].split("|")[0] not in bad_inputs]
    # the CLI in fresh processes: stdout bytes of `acv generate`
    acv = vlib.build_cli()
    tdir = os.path.join(vlib.BUILD, "traces")
    os.makedirs(tdir, exist_ok=True)
    ncli = 0
    for name, p, d in inputs[: (6 if quick else 40)]:
        if name in bad_inputs:
            continue
        pf = os.path.join(tdir, "c06_profile.yaml")
        open(pf, "w").write(p)
        for k in range(3 if quick else 8):
            pr = subprocess.run([acv, "generate", pf], capture_output=True, timeout=120)
            if pr.returncode != 0:
                break
            lines.append({"key": name + "|cli-generate", "sha": hashlib.sha256(pr.stdout).hexdigest()[:20], "src": "cli%d" % k})
            ncli += 1
    fp = os.path.join(tdir, "c06.ndjson")
    vlib.write_ndjson(fp, lines)
    tr = vlib.run_tlc("trace_c06", "DetTrace", TRCFG, workers=1, timeout=3000, env={"DET_TRACE": fp})
    rejected = None
    for s in tr.prints:
        if s.startswith("REJECTED "):
            rejected = json.loads(s[9:])
    if rejected is None or tr.error:
        raise vlib.Infra("DetTrace did not complete: %s\n%s" % (tr.error, tr.out[-2000:]))
    byname = {n: (p, d) for n, p, d in inputs}
    for key in sorted(rejected):
        name, kind = key.split("|")
        shas = {}
        for ln in lines:
            if ln["key"] == key:
                shas.setdefault(ln["sha"], []).append(ln["src"])
        shape = "quantified siblings in one mapping" if name.startswith("quant") else name
        V.disagree("%s differs between runs (%s)" % ({"code": "generated code", "report": "report",
                                                       "cli-generate": "acv generate output", "report-alt": "report (alternative schema IRIs)"}[kind], shape),
                   {"input": name, "kind": kind, "distinct_outputs": {k: sorted(set(v))[:6] for k, v in shas.items()},
                    "profile": byname[name][0], "data": byname[name][1] if len(byname[name][1]) < 4000 else None})
    # self-test of the binding
    sp = os.path.join(tdir, "c06_self.ndjson")
    vlib.write_ndjson(sp, [{"key": "a|code", "sha": "1", "src": "x"}, {"key": "b|code", "sha": "2", "src": "x"},
                           {"key": "a|code", "sha": "1", "src": "y"}, {"key": "b|code", "sha": "3", "src": "y"}])
    st = vlib.run_tlc("trace_c06_self", "DetTrace", TRCFG, workers=1, timeout=300, env={"DET_TRACE": sp})
    if not any(s == 'REJECTED ["b|code"]' for s in st.prints):
        raise vlib.Infra("DetTrace self-test failed: %s" % st.prints)
    rc = V.finish()
    keys = set(ln["key"] for ln in lines)
    vlib.write_evidence("C06", tier, {
        "states": states + tr.distinct, "transitions": trans + tr.generated,
        "traces_validated_against_impl": len(lines),
        "evaluations": len(lines), "distinct_nontrivial": len(keys),
        "rule": "inputs: 9 profiles with 2-4 quantified constraints in one mapping at depth 1-3 (the shape for which the model "
                "with map-order visits is refuted), purpose-built and fixture profiles with their data (%d inputs); per input: "
                "generated code under fresh-process conditions and report under a fixed clock, %d sequential repetitions, %d "
                "concurrent goroutines, %d separate harness processes, `acv generate` in fresh processes (%d runs); every "
                "observation (input, kind, hash) validated by TLC (DetTrace: the first observation binds the value); "
                "distinct = distinct (input, kind) keys" % (len(inputs), reps, rows[0]["goroutines"], nproc, ncli),
        "inputs_skipped_not_validating": sorted(bad_inputs)[:10],
        "samples": lines[:4], "checker_cmd": tr.cmd,
        "negative_control": "DocumentOrder = FALSE -> SameCodeEveryRun violated",
        "known_findings_hit": sorted(V.known_hits),
    }, time.time() - t0, violations=len(V.violations),
        assumptions=["nondeterminism is observed statistically (Go re-randomises map iteration per range loop): with k keys and "
                     "N observations the chance of missing an order dependence is about (1/k!)^(N-1)"])
    return rc


def replay(path):
    doc = json.load(open(path))
    c = doc["case"]
    if not c.get("data"):
        print("data not stored for this input; re-running the check")
        return run("quick")
    rows = [{"id": "r", "profile": c["profile"], "data": c["data"], "reps": 40, "goroutines": 8, "tag": ""}]
    obs = vlib.run_harness("determinism", rows, "replay_c06", shards=1)
    shas = {}
    for r in obs[0]["rows"]:
        shas.setdefault(r["key"], set()).add(r["sha"])
    print({k: len(v) for k, v in shas.items()})
    if any(len(v) > 1 for v in shas.values()):
        print("VIOLATION property=C06 replay=%s" % path)
        return 1
    return 0
