"""C15 - verdicts do not depend on how the profile is written down."""
import json
import os
import time

import corpus
import c09
import vlib

MC_CFG = "SPECIFICATION Spec\nCONSTANTS\n  MaxWalk = %d\n  AllowBrokenRename = %s\nINVARIANT MeaningPreserved\nCHECK_DEADLOCK FALSE\n"
WALK_CFG = "SPECIFICATION Spec\nCONSTANTS\n  MaxWalk = %d\n  AllowBrokenRename = FALSE\nINVARIANTS MeaningPreserved EmitWalk\nCHECK_DEADLOCK FALSE\n"

RICH_PROFILE = """#%Validation Profile 1.0
profile: spelling
prefixes:
  ex: http://example.org/ns#
  other: http://example.org/other#
violation:
  - v-and
  - v-or
  - v-nested
warning:
  - w-cmp
  - v-wide-or
  - v-two-kinds
  - v-lookalike
  - v-rego-twins
  - v-ext
  - v-linebreak
info:
  - i-shapes
validations:
  v-wide-or:
    targetClass: ex.T
    message: one of four pairs
    or:
      - and:
          - propertyConstraints:
              ex.w1:
                minCount: 1
          - propertyConstraints:
              other.w2:
                minCount: 1
      - and:
          - propertyConstraints:
              other.w3:
                minCount: 1
          - propertyConstraints:
              ex.w4:
                minCount: 1
      - and:
          - propertyConstraints:
              ex.w5:
                minCount: 1
          - propertyConstraints:
              other.w6:
                minCount: 1
      - and:
          - propertyConstraints:
              other.w7:
                minCount: 1
          - propertyConstraints:
              ex.w8:
                minCount: 1
      - propertyConstraints:
          ex.w9:
            minCount: 1
  v-ext:
    targetClass: ex.T
    message: the wadus extension is mandatory
    propertyConstraints:
      apiExt.wadus:
        minCount: 1
  v-linebreak:
    targetClass: ex.T
    message: "a message that ends with a line break\\n"
    propertyConstraints:
      ex.q:
        in: [ "fine\\n", ok, "ok,fine", none, toolong ]
  v-rego-twins:
    targetClass: ex.T
    message: two embedded checks that differ in nothing but their code
    or:
      - rego: |
          $result = (object.get($node, "http://example.org/ns#p", null) != null)
      - rego: |
          $result = (object.get($node, "http://example.org/ns#low", null) == 5)
  v-lookalike:
    targetClass: ex.T
    message: operands that print alike
    or:
      - and:
          - propertyConstraints:
              ex.q:
                in: [ "ok,fine" ]
          - propertyConstraints:
              ex.q:
                in: [ ok, fine ]
      - and:
          - propertyConstraints:
              ex.low:
                minInclusive: 4.0000001
          - propertyConstraints:
              ex.low:
                minInclusive: 4.0000004
          - propertyConstraints:
              ex.low:
                maxInclusive: 4.0000002
  v-two-kinds:
    targetClass: ex.T
    message: two expression kinds in one mapping
    propertyConstraints:
      ex.q:
        minCount: 1
    or:
      - propertyConstraints:
          ex.p:
            minCount: 3
      - propertyConstraints:
          ex.low:
            minCount: 1
  v-and:
    targetClass: ex.T
    message: "p is {{ex.p}} and q is {{ ex.q }}"
    propertyConstraints:
      ex.p:
        minCount: 1
        maxCount: 2
      ex.q:
        maxLength: 3
        pattern: ^[a-z]+$
  v-or:
    targetClass: ex.T
    message: either
    or:
      - propertyConstraints:
          ex.q:
            in: [ ok, fine ]
      - and:
          - propertyConstraints:
              ex.p:
                minCount: 2
          - not:
              propertyConstraints:
                ex.child / ex.p:
                  minCount: 1
  v-nested:
    targetClass: ex.T
    message: children
    propertyConstraints:
      ex.child | other.kid:
        nested:
          propertyConstraints:
            ex.p:
              minCount: 1
            ex.q:
              datatype: xsd.string
  w-cmp:
    targetClass: ex.T
    message: ordered
    propertyConstraints:
      ex.low:
        lessThanProperty: ex.high
  i-shapes:
    targetClass: shapes.Shape
    message: named
    propertyConstraints:
      core.name:
        minCount: 1
      shacl.name:
        minCount: 1
"""

def _wide_nodes():
    out = []
    ns = {1: "ns", 2: "other", 3: "other", 4: "ns", 5: "ns", 6: "other", 7: "other", 8: "ns"}
    for k in range(40):
        bits = (k * 37 + 11) % 256
        n = {"@id": "http://example.org/w%d" % k, "@type": ["http://example.org/ns#T"], "http://example.org/ns#q": "ok",
             "http://example.org/ns#p": "x"}
        for i in range(1, 9):
            if bits >> (i - 1) & 1:
                n["http://example.org/%s#w%d" % (ns[i], i)] = "v"
        out.append(n)
    return out


RICH_DATA = json.dumps(_wide_nodes() + [
    {"@id": "http://example.org/look1", "@type": ["http://example.org/ns#T"], "http://example.org/ns#q": "ok,fine", "http://example.org/ns#p": "x",
     "http://a.ml/vocabularies/document#customDomainProperties": [{"@id": "amf://id#ext-link-1"}], "amf://id#ext-link-1": {"@id": "http://example.org/ext1"}},
    {"@id": "http://example.org/ext1", "@type": ["http://a.ml/vocabularies/data#Scalar"], "http://a.ml/vocabularies/core#extensionName": "wadus",
     "http://a.ml/vocabularies/data#value": "true"},
    {"@id": "http://example.org/look2", "@type": ["http://example.org/ns#T"], "http://example.org/ns#q": "fine", "http://example.org/ns#p": "x",
     "http://example.org/ns#low": 4.0000003},
    {"@id": "http://example.org/look3", "@type": ["http://example.org/ns#T"], "http://example.org/ns#q": "none", "http://example.org/ns#p": "x",
     "http://example.org/ns#low": 4.0000002},
    {"@id": "http://example.org/n1", "@type": ["http://example.org/ns#T"], "http://example.org/ns#q": "toolong",
     "http://example.org/ns#child": [{"@id": "http://example.org/n2"}], "http://example.org/ns#low": 5, "http://example.org/ns#high": 3},
    {"@id": "http://example.org/n2", "@type": ["http://example.org/ns#T"], "http://example.org/ns#p": ["a", "b", "c"],
     "http://example.org/ns#q": "ok", "http://example.org/other#kid": [{"@id": "http://example.org/n3"}]},
    {"@id": "http://example.org/n3", "@type": ["http://example.org/ns#T", "http://a.ml/vocabularies/shapes#Shape"],
     "http://example.org/ns#p": "x", "http://example.org/ns#q": 7, "http://a.ml/vocabularies/core#name": "n"},
])


def run(tier):
    t0 = time.time()
    V = vlib.Verdict("C15")
    rnd = vlib.rng(15)
    quick = tier == "quick"
    mc = vlib.run_tlc("profile_mc", "Profile", MC_CFG % (3, "FALSE"), timeout=900)
    vlib.tlc_must_pass(mc, "Profile rewrite model (MeaningPreserved on every walk of length <= 3)")
    neg = vlib.run_tlc("profile_neg", "Profile", MC_CFG % (2, "TRUE"), workers=4, timeout=300)
    if neg.violated != "MeaningPreserved":
        raise vlib.Infra("negative control (rename without declaration) not refuted: %s %s" % (neg.violated, neg.error))
    nwalks = 12 if quick else 120
    sim = vlib.run_tlc("profile_walks", "ProfileWalks", WALK_CFG % 6, workers=1, timeout=600,
                       simulate="num=%d" % (nwalks * 3), depth=12, seed_=vlib.seed())
    walks = {}
    for w in vlib.cases_from_prints(sim):
        walks[json.dumps(w)] = w
    walks = [walks[k] for k in sorted(walks)]
    rnd.shuffle(walks)
    if len(walks) < nwalks:
        raise vlib.Infra("too few walks from TLC simulation: %d" % len(walks))
    # make sure every rewrite kind occurs
    kinds = set(op["op"] for w in walks for op in w)
    chosen, covered = [], set()
    for w in walks:                     # greedy cover: every rewrite kind occurs in the walks that are replayed
        ks = set(op["op"] for op in w)
        if not ks <= covered:
            chosen.append(w)
            covered |= ks
    chosen += [w for w in walks if w not in chosen]
    walks = chosen[:nwalks]
    missing = kinds - set(op["op"] for w in walks for op in w)
    if missing or len(kinds) < 17:
        raise vlib.Infra("rewrite kinds not covered by the simulated walks: %s (have %s)" % (sorted(missing), sorted(kinds)))
    bases = [(RICH_PROFILE, RICH_DATA, "rich"), (corpus.OK_PROFILE, c09.DOCS["fail3"], "ok"),
             (corpus.OK_PROFILE_NESTED, c09.DOCS["failNested"], "nested")]
    fx = corpus.fixture_pairs()
    rnd.shuffle(fx)
    bases += [(p, d, name) for p, d, name in fx[: (25 if quick else 400)] if len(d) < 400000]
    rows = []
    for bi, (p, d, name) in enumerate(bases):
        rows.append({"id": "b%04d/base" % bi, "profile": p, "data": d, "walk": [], "seed": 0})
        ws = walks if bi == 0 else rnd.sample(walks, min(len(walks), 4 if quick else 12))
        for wi, w in enumerate(ws):
            rows.append({"id": "b%04d/w%03d" % (bi, wi), "profile": p, "data": d, "walk": w, "seed": rnd.randrange(1 << 30)})
        if bi == 0:
            # the rich profile also gets every single rewrite step on its own, the prefix steps under several renderer
            # seeds (which prefix is renamed / aliased and to which of the fresh names is the renderer's choice)
            singles = [("permute:" + o, k) for o in ("top", "validations", "validation", "propertyConstraints", "constraints",
                                                     "prefixes", "levelList", "operands") for k in (1, 2, 3)]
            singles += [("style:" + st, k) for st in ("quote", "flow", "comments", "blank", "indent") for k in (1, 2)]
            singles += [("rename", 1), ("rename", 2), ("alias", 1), ("alias", 2), ("builtinAlias", 1), ("builtinAlias", 2), ("redeclare", 1)]
            for si, (op, arg) in enumerate(singles):
                for sd in range(10 if op in ("rename", "alias", "builtinAlias") else (6 if op == "style:quote" else 2)):
                    rows.append({"id": "b%04d/s%03d_%d" % (bi, si, sd), "profile": p, "data": d, "walk": [{"op": op, "arg": arg}],
                                 "seed": sd * 7919 + si})
    obs = vlib.run_harness("respell", rows, "c15", timeout=3000)
    oby = {o["id"]: o for o in obs}
    rby = {r["id"]: r for r in rows}
    applied = {}
    compared = 0
    for bi, (p, d, name) in enumerate(bases):
        b = oby["b%04d/base" % bi]
        if b.get("err"):
            continue       # a fixture that does not validate is not a base
        for rid, o in oby.items():
            if not rid.startswith(("b%04d/w" % bi, "b%04d/s" % bi)):
                continue
            r = rby[rid]
            for a in o.get("applied") or []:
                applied[a.split("/")[0]] = applied.get(a.split("/")[0], 0) + 1
            ops = "+".join(sorted(set(op["op"] for op in r["walk"])))
            if o.get("rewriteErr"):
                raise vlib.Infra("rewrite failed on %s: %s" % (name, o["rewriteErr"]))
            compared += 1
            if o.get("err"):
                V.disagree("rewritten profile fails (%s): %s" % (culprit(r["walk"]), o["err"][:50]),
                           {"base": name, "walk": r["walk"], "seed": r["seed"], "error": o["err"], "rewritten": o.get("text")})
            elif o["conforms"] != b["conforms"] or o["results"] != b["results"]:
                V.disagree("results change under rewrite (%s)" % culprit(r["walk"]),
                           {"base": name, "walk": r["walk"], "seed": r["seed"], "base_results": b["results"][:20],
                            "rewritten_results": o["results"][:20], "rewritten": o.get("text"), "profile": p, "data": d if len(d) < 5000 else None})
    rc = V.finish()
    vlib.write_evidence("C15", tier, {
        "states": mc.distinct + sim.generated, "transitions": mc.generated + sim.generated,
        "traces_validated_against_impl": compared,
        "evaluations": len(rows), "distinct_nontrivial": len(walks),
        "rule": "Profile.tla model-checked for all rewrite walks of length<=3 (MeaningPreserved; refuted for a rename that forgets "
                "the declaration); %d distinct walks of 6 rewrites from TLC simulation (permute keys of top level / validations "
                "/ propertyConstraints / one property's constraints / prefixes, permute level lists and and/or operands, rename "
                "/ alias / built-in alias / re-declare prefixes, quoting, flow style, comments, blank lines, indentation) applied "
                "through yaml.v3 to %d base profiles (a purpose-built one + fixtures with their own data); conforms and the "
                "(severity, validation, focus, message) set compared with the base; distinct = distinct walks"
                % (len(walks), len(bases)),
        "rewrites_applied": applied, "rewrite_kinds_in_walks": sorted(kinds),
        "samples": [{"walk": w} for w in walks[:3]],
        "checker_cmd": mc.cmd, "negative_control": "AllowBrokenRename -> MeaningPreserved violated",
        "known_findings_hit": sorted(V.known_hits),
    }, time.time() - t0, violations=len(V.violations),
        assumptions=["prefix names are restricted to [A-Za-z][A-Za-z0-9-]*"])
    return rc


def culprit(walk):
    return "+".join(sorted(set(op["op"] for op in walk)))


def replay(path):
    doc = json.load(open(path))
    c = doc["case"]
    if not c.get("profile"):
        print("base profile not stored; re-run the check")
        return run("quick")
    rows = [{"id": "base", "profile": c["profile"], "data": c["data"], "walk": [], "seed": 0},
            {"id": "rw", "profile": c["profile"], "data": c["data"], "walk": c["walk"], "seed": c["seed"]}]
    obs = vlib.run_harness("respell", rows, "replay_c15", shards=1)
    oby = {o["id"]: o for o in obs}
    print(oby["rw"].get("text"))
    if oby["rw"].get("err") or oby["rw"]["results"] != oby["base"]["results"] or oby["rw"]["conforms"] != oby["base"]["conforms"]:
        print("VIOLATION property=C15 replay=%s" % path)
        return 1
    return 0
