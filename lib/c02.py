"""C02 - property paths denote composition, union and converse of graph edges."""
import json
import os
import time

import vlib

CFG = """INIT Init
NEXT Next
CONSTANTS
  Mode = "%(mode)s"
  Part = %%(part)d
  NParts = %%(nparts)d
INVARIANTS Theorem AltIsUnion Emit
"""


def render_path(a, rnd, top=True, custom=None):
    """AST -> text with random optional white space and redundant parentheses (| binds tighter than /).
    custom: the predicate written with the apiExt prefix (a custom domain property, tutorial section 4.3)."""
    def sp():
        return rnd.choice(["", " ", " ", "  "])
    k = a["k"]
    if k == "type":
        s = "@type"
    elif k == "p":
        s = ("apiExt." if a["p"] == custom else "ex.") + a["p"] + (rnd.choice(["^", " ^"]) if a["inv"] else "")
    elif k == "and":
        parts = []
        for x in a["xs"]:
            t = render_path(x, rnd, False, custom)
            if x["k"] == "and" or (x["k"] == "or" and rnd.random() < 0.3):
                t = "(" + sp() + t + sp() + ")"
            parts.append(t)
        s = parts[0]
        for t in parts[1:]:
            s = s + " " + sp() + "/" + sp() + t      # white space before "/" (see C16: "a.b/c.d" is one IRI)
    else:
        parts = []
        for x in a["xs"]:
            t = render_path(x, rnd, False, custom)
            if x["k"] in ("and", "or"):
                t = "(" + sp() + t + sp() + ")"
            parts.append(t)
        s = parts[0]
        for t in parts[1:]:
            s = s + sp() + "|" + sp() + t
    if k in ("p", "type") and rnd.random() < 0.1:
        s = "(" + s + ")"
    return s


def nclauses(a):
    k = a["k"]
    if k in ("p", "type"):
        return 1
    if k == "or":
        return sum(nclauses(x) for x in a["xs"])
    n = 1
    for x in a["xs"]:
        n *= nclauses(x)
    return n


def gen_path(rnd, depth):
    r = rnd.random()
    if depth == 0 or r < 0.3:
        if rnd.random() < 0.1:
            return {"k": "type"}
        return {"k": "p", "p": rnd.choice(["p", "q", "r"]), "inv": rnd.random() < 0.3}
    k = "and" if r < 0.65 else "or"
    return {"k": k, "xs": [gen_path(rnd, depth - 1) for _ in range(rnd.choice([2, 2, 3, 4]))]}


def gen_graph(rnd, n, name, custom=None):
    """custom: this predicate is a custom domain property -- its objects are extension nodes: nodes (never literals)
    that no other predicate points to (that is what the AMF encoding of extensions can express)"""
    nodes = ["n%d" % i for i in range(1, n + 1)]
    lits = ["l1", "l2", "l3"]
    ext = set(rnd.sample(nodes, max(1, n // 3))) if custom else set()
    plain = [x for x in nodes if x not in ext]
    edges = set()
    for _ in range(rnd.randrange(n, 3 * n)):
        s = rnd.choice(nodes)
        p = rnd.choice(["p", "q", "r"])
        if custom and p == custom:
            o = rnd.choice(sorted(ext))
        elif custom:
            o = rnd.choice(plain + plain + lits)
        else:
            o = rnd.choice(nodes + nodes + lits)
        edges.add((s, p, o))
    types = {x: ["T"] + ([rnd.choice(["C1", "C2"])] if rnd.random() < 0.3 else []) for x in nodes}
    return {"name": name, "nodes": nodes, "edges": sorted(list(e) for e in edges), "types": types}


def compare(V, pid, path, text, g, den, po, source):
    nodes = set(g["nodes"])
    if po.get("err"):
        V.disagree("path does not compile: %s" % shape(path), {"path": path, "text": text, "error": po["err"], "graph": g})
        return
    for x in sorted(nodes):
        want = sorted(den.get(x, []))
        o = po["nodes"].get(x, {"values": [], "count": -1, "nested": [], "failed": -1})
        wn = sorted(v for v in want if v in nodes)
        problems = []
        if o["values"] != want:
            problems.append("values")
        if (o["count"] if o["count"] >= 0 else 0) != len(want):
            problems.append("count")
        if o["nested"] != wn or (o["failed"] if o["failed"] >= 0 else 0) != len(wn):
            problems.append("nested-nodes")
        if problems:
            V.disagree("%s differ for path shape %s" % ("+".join(problems), shape(path)),
                       {"path": path, "text": text, "focus": x, "expected_values": want, "observed": o, "graph": g,
                        "source": source})
            return


def shape(a):
    k = a["k"]
    if k == "type":
        return "@type"
    if k == "p":
        return "P^" if a["inv"] else "P"
    return ("seq(" if k == "and" else "alt(") + ",".join(shape(x) for x in a["xs"]) + ")"


def run(tier):
    t0 = time.time()
    V = vlib.Verdict("C02")
    rnd = vlib.rng(2)
    quick = tier == "quick"
    rs = vlib.run_tlc_parts("pd_enum", "PathDenCases", CFG % {"mode": "enum"}, 16, timeout=3000)
    cases = []
    graphs = None
    for r in rs:
        vlib.tlc_must_pass(r, "Paths denotation theorem (Unfold = Den)")
        cases.extend(vlib.cases_from_prints(r))
        for s in r.prints:
            if s.startswith("GRAPHS "):
                graphs = json.loads(s[7:])
    gmap = {g["name"]: {"name": g["name"], "nodes": sorted(g["nodes"]), "edges": sorted(g["edges"]),
                        "types": {n: sorted(ts) for n, ts in g["types"].items()}} for g in graphs}
    states = sum(r.distinct for r in rs)
    trans = sum(r.generated for r in rs)
    total_enum = len(cases)
    cases = sorted(cases, key=lambda c: json.dumps(c, sort_keys=True))
    rnd.shuffle(cases)
    if quick:
        cases = cases[: len(cases) // 12]
    # (B) random paths x random graphs, judged by the same TLC denotation (file mode)
    nrand = 60 if quick else 2500
    fin = []
    custom_of = {}
    for i in range(nrand):
        custom_of["rand%d" % i] = "r" if i % 3 == 0 else None
        g = gen_graph(rnd, rnd.choice([4, 6, 9, 12] if quick else [4, 6, 9, 12, 18, 25]), "rand%d" % i, custom_of["rand%d" % i])
        for j in range(4):
            while True:
                p = gen_path(rnd, rnd.choice([2, 3, 4]))
                if nclauses(p) <= 40:
                    break
            fin.append({"id": "r%d_%d" % (i, j), "path": p, "graph": g})
    d = os.path.join(vlib.BUILD, "traces")
    os.makedirs(d, exist_ok=True)
    from concurrent.futures import ThreadPoolExecutor
    chunks = [fin[i::8] for i in range(8)]

    def one(i):
        fp = os.path.join(d, "c02_in.%d.ndjson" % i)
        vlib.write_ndjson(fp, chunks[i])
        r = vlib.run_tlc("pd_file%d" % i, "PathDenCases", (CFG % {"mode": "file"}) % {"part": 0, "nparts": 1}, workers=2,
                         timeout=3000, env={"PATHDEN_IN": fp})
        vlib.tlc_must_pass(r, "Paths denotation theorem (file mode)")
        return r
    fcases = []
    with ThreadPoolExecutor(max_workers=8) as ex:
        for r in ex.map(one, range(8)):
            fcases.extend(vlib.cases_from_prints(r))
            states += r.distinct
            trans += r.generated
    fby = {f["id"]: f for f in fin}
    # ---- replay: batches of paths sharing a graph
    hcases = []
    meta = {}
    bygraph = {}
    for c in cases:
        bygraph.setdefault(c["graph"], []).append((c["path"], c["den"], gmap[c["graph"]], "enumerated"))
    for c in fcases:
        f = fby[c["id"]]
        bygraph.setdefault(f["graph"]["name"], []).append((f["path"], c["den"], f["graph"], "random"))
    n = 0
    nwide = 0
    for gname, items in sorted(bygraph.items()):
        for b in range(0, len(items), 6):
            batch = items[b:b + 6]
            paths = []
            for path, den, g, src in batch:
                pid = "p%06d" % n
                n += 1
                text = render_path(path, rnd, True, custom_of.get(gname))
                paths.append({"pid": pid, "text": text})
                meta[pid] = (path, text, g, den, src)
            hcases.append({"id": "%s/%d" % (gname, b), "graph": batch[0][2], "paths": paths, "custom": custom_of.get(gname) or ""})
            # wide validations: the same observation made by a validation that carries 36 more nested constraints over
            # other paths (all of them hold), i.e. more constraints in one validation than any fixture has
            if len(hcases) % 9 == 4 and nwide < (10 if quick else 80):
                nwide += 1
                wpaths = []
                for path, den, g, src in batch[:3]:
                    pid = "p%06d" % n
                    n += 1
                    text = render_path(path, rnd, True, custom_of.get(gname))
                    wpaths.append({"pid": pid, "text": text})
                    meta[pid] = (path, text, g, den, src + " (wide validation)")
                hcases.append({"id": "%s/%d/wide" % (gname, b), "graph": batch[0][2], "paths": wpaths,
                               "custom": custom_of.get(gname) or "", "wide": True})
    obs = vlib.run_harness("pathden", hcases, "c02", timeout=3000)
    nontriv = 0
    for o in obs:
        for po in o["paths"]:
            path, text, g, den, src = meta[po["pid"]]
            if any(den.get(x) for x in g["nodes"]):
                nontriv += 1
            compare(V, po["pid"], path, text, g, den, po, src)
    rc = V.finish()
    vlib.write_evidence("C02", tier, {
        "states": states, "transitions": trans, "traces_validated_against_impl": len(meta),
        "evaluations": len(meta), "distinct_nontrivial": nontriv,
        "rule": "every path with <=2 levels of / and | over predicates p, q, their converses and @type (%d paths) x 4 canonical "
                "5-node graphs (diamond, cycle+self-loop, literal in mid-path, parallel predicates/converse) enumerated by TLC, "
                "which checks Den = union of the generator's linear clauses on each and emits Den per focus node%s; plus %d "
                "random (path depth<=4, <=4 alternatives; graph <=%d nodes) pairs judged by the same TLA+ denotation; each "
                "rendered with random spacing/parentheses and observed through `in` traces (values), the maxCount trace "
                "(distinct count) and nested sub-results (nodes); %d batches repeated inside a validation with 37 nested "
                "constraints (36 always-true ones over the two-step paths); non-trivial = path reaching at least one value"
                % (total_enum // 4, " (1:12 sample replayed)" if quick else "", len(fin), 12 if quick else 25, nwide),
        "exhaustive": not quick,
        "samples": [{"path": meta[p][1], "graph": meta[p][2]["name"], "den": meta[p][3]} for p in sorted(meta)[:: max(1, len(meta) // 5)]][:5],
        "checker_cmd": rs[0].cmd, "known_findings_hit": sorted(V.known_hits),
    }, time.time() - t0, violations=len(V.violations),
        assumptions=["graphs are closed (every referenced IRI is a typed subject), blank-node free, literals are strings "
                     "distinct from every IRI; custom-property (apiExt) paths are out of scope"])
    return rc


def replay(path):
    doc = json.load(open(path))
    c = doc["case"]
    case = {"id": "replay", "graph": c["graph"], "paths": [{"pid": "p000000", "text": c["text"]}],
            "custom": "r" if "apiExt.r" in c["text"] else "", "wide": "wide" in doc["case"].get("source", "")}
    obs = vlib.run_harness("pathden", [case], "replay_c02", shards=1)
    print(json.dumps(obs[0], indent=1))
    o = obs[0]["paths"][0]["nodes"].get(c["focus"], {"values": []})
    if sorted(o["values"]) != sorted(c["expected_values"]) or (o.get("count", -1) if o.get("count", -1) >= 0 else 0) != len(c["expected_values"]):
        print("VIOLATION property=C02 replay=%s" % path)
        return 1
    return 0
