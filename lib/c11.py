"""C11 - progress events are well-bracketed and the channel is closed exactly once."""
import json
import time

import corpus
import proto
import vlib


def run(tier):
    t0 = time.time()
    V = vlib.Verdict("C11")
    rnd = vlib.rng(11)
    # 1. the design model has the property (exhaustive, bounded)
    mc = proto.model_check("ACV_protocol", "ACV protocol model")
    live = proto.model_check("ACV_live", "ACV liveness model")
    neg = []
    for flag, inv in (("CloseOnCompileSuccess", "ClosedExactlyOnceAtReturn"),
                      ("SkipCloseOnError", "ClosedExactlyOnceAtReturn"),
                      ("SwallowDecodeError", ["WellBracketed", "NoVerdictOnUnreadable", "EventsMatchOutcome"])):
        r = proto.negative_control(flag, inv)
        neg.append("%s -> %s" % (flag, r.violated))
    # 2. every abstract behaviour class, rendered and run through the real entry points
    abstract, gen = proto.abstract_cases()
    abstract = [a for a in abstract if a["chan"] != "none"]
    per_class = 2 if tier == "quick" else 12
    cases = []
    for a in abstract:
        cases.extend(proto.render(a, per_class, rnd))
    if tier == "thorough":
        for p, d, name in corpus.fixture_pairs():
            for entry in ("validate", "compileThenValidate", "validateCompiledCfg"):
                cases.append({"entry": entry, "chan": rnd.choice(["unbuf", "buf", "bufSmall"]), "profile": p, "data": d,
                              "pclass": "ok", "dclass": "unknown"})
    # a document beyond any size threshold a wrapper may have (17 MiB, padded with white space): the channel is closed
    # when the call returns, whatever the call does with such a document
    big = json.dumps([corpus.node(1, p="x", q="ok")])
    big = big[:-1] + " " * (17 * 1024 * 1024) + big[-1]
    for entry in ("validate", "validateCompiledCfg", "compileThenValidate"):
        cases.append({"entry": entry, "chan": "buf" if entry != "validate" else "unbuf", "profile": corpus.OK_PROFILE, "data": big,
                      "pclass": "ok", "dclass": "unknown"})
    obs = proto.run_cases("c11", cases)
    lines, byid = proto.to_trace(obs, "C11")
    rejected, tr = proto.validate_trace("c11", lines)
    for rid in sorted(rejected):
        o = byid[rid]
        case = next(c for c in cases if c["id"] == rid)
        V.disagree(proto.failure_key(o), {"observation": o, "case": case if len(case["data"]) < 100000 else
                                          dict(case, data=case["data"][:200] + " ...[%d bytes of white space]... " % len(case["data"]) + case["data"][-20:])})
    # 3. binding self-test: a corrupted trace must be rejected
    selftest(lines, set(rejected))
    rc = V.finish()
    shapes = {}
    for o in obs:
        for c in o["calls"]:
            shapes.setdefault((c["entry"], tuple(c["events"]), c["kind"], c["closed"]), o["id"])
    vlib.write_evidence("C11", tier, {
        "states": mc.distinct + live.distinct + tr.distinct,
        "transitions": mc.generated + live.generated + tr.generated,
        "traces_validated_against_impl": len(byid),
        "evaluations": len(cases),
        "distinct_nontrivial": len(shapes),
        "rule": "abstract cases = TLC enumeration of entry x profile class x data class x channel mode (ACVCases.tla); "
                "each rendered with up to %d concrete (profile,data) representatives; distinct = distinct "
                "(entry, event sequence, outcome, closed) observations" % per_class,
        "exhaustive": True,
        "samples": [{"id": o["id"], "entry": o["entry"], "chan": o["chan"], "pclass": o["pclass"], "dclass": o["dclass"],
                     "calls": [{k: c[k] for k in ("entry", "events", "kind", "closed")} for c in o["calls"]],
                     "milestones": [m["op"] for m in (o.get("milestones") or [])]} for o in obs[:: max(1, len(obs) // 6)]][:6],
        "checker_cmd": tr.cmd,
        "design_model": {"protocol_states": mc.distinct, "liveness_states": live.distinct, "negative_controls": neg},
        "trace_lines": len(lines), "rejected": len(rejected), "known_findings_hit": sorted(V.known_hits),
    }, time.time() - t0, violations=len(V.violations))
    return rc


def selftest(lines, rejected=frozenset()):
    """Corrupt one recorded field / drop one event: the trace spec must reject exactly that case."""
    import copy
    # pick the first ACCEPTED case with >= 6 events
    start = None
    for i, ln in enumerate(lines):
        if ln["e"] == "call" and (i == 0 or lines[i - 1]["e"] == "end"):
            start = i
        if ln["e"] == "end" and start is not None:
            seg = lines[start:i + 1]
            if ln["id"] not in rejected and sum(1 for x in seg if x["e"] == "ev") >= 6:
                break
            start = None
    else:
        if rejected:
            return      # every candidate is itself rejected: the verdict stands without the self-test
        raise vlib.Infra("selftest: no case with events found")
    seg = copy.deepcopy(seg)
    variants = []
    a = copy.deepcopy(seg)
    idx = [k for k, x in enumerate(a) if x["e"] == "ev"]
    del a[idx[2]]
    variants.append(("dropped-event", a))
    b = copy.deepcopy(seg)
    for x in b:
        if x["e"] == "ret":
            x["closed"] = not x["closed"]
    variants.append(("flipped-closed", b))
    c = copy.deepcopy(seg)
    ev = [k for k, x in enumerate(c) if x["e"] == "ev"]
    c[ev[0]], c[ev[1]] = c[ev[1]], c[ev[0]]
    variants.append(("swapped-events", c))
    out = []
    for n, (name, v) in enumerate([("original", seg)] + variants):
        for x in v:
            x["id"] = name
        base = len(out)
        for x in v:
            x["nx"] = base + len(v) + 1
        out.extend(v)
    rejected, _ = proto.validate_trace("c11_selftest", out)
    want = {"dropped-event", "flipped-closed", "swapped-events"}
    if set(rejected) != want:
        raise vlib.Infra("trace-spec self-test failed: rejected=%s expected=%s" % (sorted(rejected), sorted(want)))


def replay(path):
    return proto.replay("C11", path)
