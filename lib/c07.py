"""C07 - every well-formed declarative profile compiles."""
import json
import os
import time

import vlib

CFG = """INIT Init
NEXT Next
CONSTANTS
  Part = %d
  NParts = %d
  VarTable <- %s
INVARIANTS NamesOK Emit
"""


def failure_key(c, o):
    err = (o.get("err") or o.get("runErr") or "")
    import re
    m = re.search(r"rego_\w+_error: ([^\n]{0,60})", err)
    what = m.group(0) if m else err[:60]
    what = re.sub(r"\d+", "N", what)
    dims = []
    if c["siblings"] * c["depth"] >= 11:
        dims.append("quantified>=11")
    dims.append("kind=%s" % c["kind"] if c["kind"] in ("uniqueValues", "nested", "atLeast", "atMost") or "Property" in c["kind"] else "kind=*")
    dims.append("path=%s" % c["path"])
    if c.get("listing", "once") != "once":
        dims.append("listing=%s" % c["listing"])
    dims.append("ctx=%s" % c["ctx"])
    return "does not compile [%s]: %s" % (" ".join(dims), what)


def run(tier):
    t0 = time.time()
    V = vlib.Verdict("C07")
    rnd = vlib.rng(7)
    quick = tier == "quick"
    # design level: identifier allocation is legal/distinct; the shipped letter table is refuted (negative control)
    names = vlib.run_tlc("names", "MCNames", open(os.path.join(vlib.SPEC, "cfg", "Names_design.cfg")).read(), workers=2, timeout=120)
    vlib.tlc_must_pass(names, "Names design table")
    neg = vlib.run_tlc("names_neg", "MCNames", open(os.path.join(vlib.SPEC, "cfg", "Names_design.cfg")).read()
                       .replace("DesignTable", "ShippedTable"), workers=2, timeout=120)
    if neg.violated != "NoReserved":
        raise vlib.Infra("negative control: shipped variable table should violate NoReserved, got %s" % neg.violated)
    nparts = 40
    # thorough: three of the 40 hash slices of the sampled product (measured: ten slices ran for more than an hour, the
    # cost is OPA's compile time on shapes with 36+ quantified variables); the complete slices are in every part
    parts = [vlib.seed() % nparts] if quick else [(vlib.seed() + k) % nparts for k in (0, 13, 26)]
    from concurrent.futures import ThreadPoolExecutor
    with ThreadPoolExecutor(max_workers=8) as ex:
        rs = list(ex.map(lambda p: vlib.run_tlc("shapes_p%02d" % p, "MCShapeCases", CFG % (p, nparts, "DesignTable"),
                                                workers=2, timeout=900), parts))
    shapes = {}
    for r in rs:
        vlib.tlc_must_pass(r, "ShapeCases (names invariants on every shape)")
        for c in vlib.cases_from_prints(r):
            shapes[json.dumps(c, sort_keys=True)] = c
    shapes = [shapes[k] for k in sorted(shapes)]
    total = len(shapes)
    if quick:
        rnd.shuffle(shapes)
        shapes = [s for s in shapes if s["depth"] <= 5 or (s["ctx"] == "plain" and s["depth"] <= 7)]
        heavy = [s for s in shapes if s["siblings"] * s["depth"] >= 11]
        light = [s for s in shapes if s["siblings"] * s["depth"] < 11]
        listed = [s for s in light if s.get("listing", "once") != "once"]
        shapes = heavy[:30] + listed + [s for s in light if s.get("listing", "once") == "once"][:500]
    for i, s in enumerate(shapes):
        s["id"] = "s%05d" % i
    # heavy shapes first so that shards finish together
    shapes.sort(key=lambda s: -(s["siblings"] * s["depth"] * s["validations"]))
    obs = vlib.run_harness("shapes", shapes, "c07", timeout=3000)
    by = {s["id"]: s for s in shapes}
    ok = 0
    for o in obs:
        c = by[o["id"]]
        if o["compiled"] and o["ran"] == "report":
            ok += 1
            continue
        V.disagree(failure_key(c, o), {"shape": c, "error": o.get("err") or o.get("runErr"), "ran": o.get("ran"),
                                       "profile": o.get("profile")})
    rc = V.finish()
    vlib.write_evidence("C07", tier, {
        "states": names.distinct + sum(r.distinct for r in rs), "transitions": names.generated + sum(r.generated for r in rs),
        "traces_validated_against_impl": len(shapes),
        "evaluations": len(shapes), "distinct_nontrivial": ok,
        "rule": "profile shapes enumerated by TLC (ShapeCases.tla): complete slices kind(25) x path shape(15) x context(8), how a validation is listed (once / two / three levels / twice), "
                "siblings/depth/context/quantifier, kind x number of validations, plus hash-sampled points of the full product "
                "(%d shapes in the enumerated parts, %d replayed); each rendered as a well-formed declarative profile, "
                "compiled with CompileProfile and run once; non-trivial = compiled and produced a report"
                % (total, len(shapes)),
        "samples": [dict((k, s[k]) for k in s if k != "id") for s in shapes[:: max(1, len(shapes) // 6)]][:6],
        "checker_cmd": rs[0].cmd, "negative_control": "ShippedTable -> NoReserved violated at index 11 (a -> as)",
        "known_findings_hit": sorted(V.known_hits),
    }, time.time() - t0, violations=len(V.violations),
        assumptions=["the accepting oracle is OPA's own parser/compiler (the property is 'the engine accepts')"])
    return rc


def replay(path):
    doc = json.load(open(path))
    c = dict(doc["case"]["shape"])
    c["id"] = "replay"
    obs = vlib.run_harness("shapes", [c], "replay_c07", shards=1)
    print(json.dumps(obs[0], indent=1)[:3000])
    if not (obs[0]["compiled"] and obs[0]["ran"] == "report"):
        print("VIOLATION property=C07 replay=%s" % path)
        return 1
    return 0
