"""C13 - profile text is data: names and messages reach the report intact."""
import json
import os
import time

import vlib

CFG = """INIT Init
NEXT Next
CONSTANTS
  MaxLen = %(maxlen)d
  Part = %%(part)d
  NParts = %%(nparts)d
  Shipped = %(shipped)s
INVARIANTS %(invs)s
"""

CONCRETE = {"dq": ['"'], "sq": ["'"], "bs": ["\\"], "pct": ["%"], "lb": ["{"], "rb": ["}"], "nl": ["\n"],
            "na": ["é", "漢", "😀", "ß"], "n": ["n"], "v": ["v"], "q": ["b", "t", "u", "x", "z", "Q", "d", "s", "0"],
            "sp": [" "], "cm": [",", ";", ", "], "cc": ["\x07", "\x1b", "\x0b", "\x01", "\x7f", "\x08"], "ap": ["\U000e0067", "\U0001f3f4", "\U000e007f"], "P1": ["{{ex.p1}}"], "P2": ["{{ core.name }}"], "V1": ["VAL1"], "V2": ["VAL2"], "N0": ["null"]}


def concretize(symbols, choice):
    return "".join(choice[(i, c)] if (i, c) in choice else CONCRETE[c][0] for i, c in enumerate(symbols))


def render_pair(s, expect, rnd):
    """concretise input and expectation with the SAME character for the same (position-independent) symbol occurrence"""
    pick = {c: rnd.choice(CONCRETE[c]) for c in set(s) | set(expect)}
    return "".join(pick[c] for c in s), "".join(pick[c] for c in expect)


def klass(s):
    cs = sorted(set(c for c in s if c in ("dq", "bs", "pct", "nl", "lb", "rb", "sq", "na", "cc", "ap", "cm")))
    return "+".join(cs) or "plain"


def run(tier):
    t0 = time.time()
    V = vlib.Verdict("C13")
    rnd = vlib.rng(13)
    quick = tier == "quick"
    maxlen = 3 if quick else 4
    nparts = 4 if quick else 16
    rs = vlib.run_tlc_parts("text", "TextCases", CFG % dict(maxlen=maxlen, shipped="FALSE", invs="Correct Emit"), nparts, timeout=3000)
    cases = []
    for r in rs:
        vlib.tlc_must_pass(r, "Text design chain = expectation on every string")
        cases.extend(vlib.cases_from_prints(r))
    neg = vlib.run_tlc("text_neg", "TextCases", (CFG % dict(maxlen=2, shipped="TRUE", invs="Correct")) % {"part": 0, "nparts": 1},
                       workers=2, timeout=300)
    if neg.violated != "Correct":
        raise vlib.Infra("negative control (escaping of the pinned tree) not refuted: %s %s" % (neg.violated, neg.error))
    total = len(cases)
    cases = sorted(cases, key=lambda c: json.dumps(c, sort_keys=True))
    rnd.shuffle(cases)
    if not quick:
        cases = cases[: len(cases) // 3]
    rows = []
    meta = {}
    for i, c in enumerate(cases):
        text, want = render_pair(c["s"], c["expect"], rnd)
        if c["kind"] == "message":
            kinds = ["message"]
        else:
            kinds = ["profileName", "validationName", rnd.choice(["in", "containsAll", "containsSome"])]
            if not quick or i % 3 == 0:
                kinds = ["profileName", "validationName", "in", "containsAll", "containsSome"]
        for k in kinds:
            rid = "t%06d/%s" % (i, k)
            rows.append({"id": rid, "kind": k, "text": text, "present": {p: True for p in c["present"]},
                         "pad": 40 if (i + len(k)) % 2 == 0 and k in ("in", "containsAll", "containsSome") else 0})
            meta[rid] = (c, text, want)
    # (B) random printable-Unicode strings: the expectation is computed by TLC in... the same operators need symbols, so
    # these are classified symbol-wise and judged by the enumerated expectation rule (verbatim / dq->sq), kept small
    # names that are also keys of the profile language must be treated as data like any other name
    for w in ("violation", "warning", "info", "validations", "profile", "prefixes", "message", "targetClass", "nested"):
        for k in ("profileName", "validationName"):
            rid = "kw-%s/%s" % (w, k)
            rows.append({"id": rid, "kind": k, "text": w, "present": {}})
            meta[rid] = ({"kind": "verbatim", "s": ["q"], "present": [], "expect": ["q"]}, w, w)
    # the report the command line tool prints is a report too: a sample of the rows (every row with a percent sign first)
    acv = vlib.build_cli()
    scratch = os.path.join(vlib.BUILD, "c13cli")
    os.makedirs(scratch, exist_ok=True)
    pick = [r for r in rows if r["kind"] in ("message", "profileName", "validationName")]
    pick.sort(key=lambda r: (0 if "%" in r["text"] else 1, vlib.sha(r["id"] + str(vlib.seed()))))
    for r in pick[: (60 if quick else 600)]:
        r["cli"], r["scratch"] = acv, scratch
    obs = vlib.run_harness("text", rows, "c13", timeout=3000)
    nontriv = 0
    ncli = 0
    skipped = 0
    for o in obs:
        c, text, want = meta[o["id"]]
        kind = o["id"].split("/")[1]
        detail = {"position": kind, "text": text, "symbols": c["s"], "expected": want, "observed": {k: o.get(k) for k in
                  ("compiled", "err", "profileName", "names", "messages", "reported")}, "profile": o.get("profile")}
        if klass(c["s"]) != "plain":
            nontriv += 1
        if (o.get("err") or "").startswith("SKIP:"):
            skipped += 1
            continue
        if not o["compiled"] or o.get("err"):
            V.disagree("%s with [%s] does not compile/run" % (kind, klass(c["s"])), detail)
            continue
        if kind == "message":
            if o["messages"] != [want]:
                V.disagree("message with [%s%s] is altered" % (klass(c["s"]), "+placeholder" if any(x in ("P1", "P2") for x in c["s"]) else ""), detail)
        elif kind == "profileName":
            if o["profileName"] != want:
                V.disagree("profile name with [%s] is altered" % klass(c["s"]), detail)
        elif kind == "validationName":
            if sorted(set(o["names"])) != [want]:
                V.disagree("validation name with [%s] is altered" % klass(c["s"]), detail)
        else:
            if o["reported"] != ["n2"]:
                V.disagree("%s value with [%s] changes the verdict" % (kind, klass(c["s"])), detail)
        if o.get("cliRan"):
            ncli += 1
            detail["cli"] = {k: o.get(k) for k in ("cliErr", "cliProfileName", "cliNames", "cliMessages")}
            if o.get("cliErr"):
                V.disagree("acv validate fails or prints no report for a %s with [%s]" % (kind, klass(c["s"])), detail)
            elif (kind == "message" and o.get("cliMessages") != [want]) or (kind == "profileName" and o.get("cliProfileName") != want) \
                    or (kind == "validationName" and sorted(set(o.get("cliNames") or [])) != [want]):
                V.disagree("%s with [%s] is altered in the report printed by acv validate" % (kind, klass(c["s"])), detail)
    if skipped > len(obs) // 20:
        raise vlib.Infra("%d of %d cases could not be written as YAML by the harness" % (skipped, len(obs)))
    rc = V.finish()
    vlib.write_evidence("C13", tier, {
        "states": sum(r.distinct for r in rs), "transitions": sum(r.generated for r in rs),
        "traces_validated_against_impl": len(rows),
        "evaluations": len(rows), "distinct_nontrivial": nontriv,
        "rule": "every string of length <= %d over 15 character classes (quotes, backslash, %%, braces, newline, non-ASCII, control, separators, "
                "astral non-printable, the letters n and v, other letters, space) plus 2 placeholders in messages, with every subset of placeholder "
                "properties present on the focus node (%d cases enumerated by TLC, the design chain proved equal to the "
                "expectation on each%s); each concretised and placed as message / profile name / validation name / value of "
                "in, containsAll, containsSome (YAML-encoded by yaml.v3); profileName, sourceShapeName, resultMessage and the "
                "verdict compared; non-trivial = text containing a character special to Rego/sprintf/JSON"
                % (maxlen, total, "" if quick else "; 1:3 replayed"),
        "exhaustive": quick, "skipped_not_writable_as_yaml": skipped, "also_through_acv_validate": ncli,
        "samples": [{"position": r["kind"], "text": r["text"], "expected": meta[r["id"]][2]} for r in rows[:: max(1, len(rows) // 8)]][:8],
        "checker_cmd": rs[0].cmd, "negative_control": "Shipped chain -> Correct violated (e.g. a lone backslash)",
        "known_findings_hit": sorted(V.known_hits),
    }, time.time() - t0, violations=len(V.violations),
        assumptions=["pattern arguments are not covered (backtick raw strings)", "the harness always emits valid YAML for the intended string"])
    return rc


def replay(path):
    doc = json.load(open(path))
    c = doc["case"]
    row = {"id": "r/" + c["position"], "kind": c["position"], "text": c["text"],
           "present": {p: True for p in ("P1", "P2") if p in c["symbols"]}}
    obs = vlib.run_harness("text", [row], "replay_c13", shards=1)
    print(json.dumps(obs[0], indent=1, ensure_ascii=False))
    o = obs[0]
    bad = (not o["compiled"]) or (c["position"] == "message" and o["messages"] != [c["expected"]]) or \
          (c["position"] == "profileName" and o["profileName"] != c["expected"]) or \
          (c["position"] == "validationName" and sorted(set(o["names"])) != [c["expected"]]) or \
          (c["position"] in ("in", "containsAll", "containsSome") and o["reported"] != ["n2"])
    if bad:
        print("VIOLATION property=C13 replay=%s" % path)
        return 1
    return 0
