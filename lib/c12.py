"""C12 - reports are well-formed: unique node ids, grounded focus nodes, complete results."""
import copy
import json
import os
import time

import c01
import corpus
import vlib

IDCFG = """INIT IdInit
NEXT IdNext
CONSTANTS
  Part = %(part)d
  NParts = %(nparts)d
INVARIANTS IdsOK
"""
TRCFG = "SPECIFICATION TSpec\nPOSTCONDITION Summary\nCHECK_DEADLOCK FALSE\n"


def atom(i):
    return {"k": "atom", "i": i}


def handmade(rnd):
    """formulas designed for several traces per result, several sub-results per trace, nesting depth up to 4"""
    fs = []
    for k in (2, 3, 4):
        fs.append({"k": "or", "xs": [atom(1 + (j % 4)) for j in range(k)]})
        fs.append({"k": "and", "xs": [atom(1 + (j % 4)) for j in range(k)]})
    inner = {"k": "and", "xs": [atom(1), atom(2)]}
    for d in (1, 2, 3, 4):
        f = inner
        for lvl in range(d):
            f = {"k": "q", "q": "nested", "n": 0, "p": "child" if lvl % 2 == 0 else "other", "x": f}
        fs.append(f)
    fs.append({"k": "q", "q": "atLeast", "n": 3, "p": "child", "x": {"k": "or", "xs": [atom(1), atom(3)]}})
    fs.append({"k": "q", "q": "atMost", "n": 0, "p": "child", "x": {"k": "not", "x": atom(2)}})
    fs.append({"k": "or", "xs": [{"k": "q", "q": "nested", "n": 0, "p": "child", "x": atom(1)},
                                 {"k": "q", "q": "nested", "n": 0, "p": "other", "x": {"k": "and", "xs": [atom(2), atom(3)]}}]})
    fs.append({"k": "itee", "c": atom(1), "t": {"k": "q", "q": "nested", "n": 0, "p": "child", "x": atom(2)}, "e": atom(3)})
    fs.append({"k": "not", "x": {"k": "q", "q": "nested", "n": 0, "p": "child", "x": atom(4)}})
    return fs


def deep_cases(rnd, start):
    """nested constraints 5, 6 and 7 levels deep on a chain graph, every level failing"""
    names = ["c%d" % k for k in range(10)]
    world = {"targets": names[:2],
             "nodes": {n: {"val": [False, k % 2 == 0, False, True], "kids": {"child": [names[k + 1]] if k + 1 < len(names) else [],
                                                                            "other": [names[k + 2]] if k + 2 < len(names) else []}}
                       for k, n in enumerate(names)}}
    out = []
    for j, depth in enumerate((5, 6, 7)):
        f = {"k": "and", "xs": [atom(1), atom(3)]}
        for lvl in range(depth):
            f = {"k": "q", "q": "nested", "n": 0, "p": "child" if (lvl + j) % 3 else "other", "x": f}
        i = start + j
        fs = [{"fid": "deep%d" % depth, "ast": f}, {"fid": "shallow%d" % depth, "ast": atom(1)}]
        out.append({"id": "c12-%04d" % i, "world": world, "kinds": [0, 7, 11, 3], "formulas": fs, "spell": 0,
                    "level": {"deep%d" % depth: ["violation", "warning", "info"][j], "shallow%d" % depth: "violation"},
                    "lexical": {n: {"range": [k, 1, k + 1, 2], "nodeLevel": True, "propLevel": False} for k, n in enumerate(names)} if j != 1 else {},
                    "hasSource": j != 1, "root": "file:///root.raml", "additional": {}, "rangeStyle": j})
    return out


def make_case(i, rnd, formulas, lexical_mode):
    natoms = 4
    world = c01.gen_world(rnd, natoms, rnd.choice([6, 10, 16]))
    # one validation name carries double quotes (a name is data; the report must show it as it is)
    fs = [{"fid": ("v%d_%d" if j else 'v%d "quoted" %d') % (i, j), "ast": f} for j, f in enumerate(formulas)]
    level = {f["fid"]: rnd.choice(["violation", "violation", "warning", "info"]) for f in fs}
    case = {"id": "c12-%04d" % i, "world": world, "kinds": rnd.sample(range(c01.NKINDS), natoms), "formulas": fs,
            "spell": rnd.randrange(4), "level": level, "lexical": {}, "hasSource": False, "root": "", "additional": {},
            "rangeStyle": rnd.randrange(6), "ctxRef": i % 3}
    if lexical_mode:
        names = sorted(world["nodes"])
        for n in names:
            r = rnd.random()
            if r < 0.7:
                case["lexical"][n] = {"range": [rnd.randrange(0, 500), rnd.randrange(0, 120), rnd.randrange(0, 500), rnd.randrange(0, 120)],
                                      "nodeLevel": True, "propLevel": rnd.random() < 0.3}
            elif r < 0.8:
                case["lexical"][n] = {"range": [0, 0, 0, 0], "nodeLevel": False, "propLevel": True}
        case["hasSource"] = lexical_mode == 2 or rnd.random() < 0.8
        case["root"] = "file:///root.raml"
        if rnd.random() < 0.6:
            case["additional"] = {"file:///lib1.raml": rnd.sample(names, min(len(names), 3))}
    return case


def run(tier):
    t0 = time.time()
    V = vlib.Verdict("C12")
    rnd = vlib.rng(12)
    quick = tier == "quick"
    # design: the positional id scheme is injective on every uniform tree shape (depth<=3, fan-out<=3)
    nparts = 16
    parts = [vlib.seed() % nparts, (vlib.seed() + 5) % nparts] if quick else list(range(nparts))
    from concurrent.futures import ThreadPoolExecutor
    with ThreadPoolExecutor(max_workers=8) as ex:
        rs = list(ex.map(lambda p: vlib.run_tlc("rid_p%02d" % p, "ReportIdCases", IDCFG % {"part": p, "nparts": nparts},
                                                workers=2, timeout=1800), parts))
    for r in rs:
        vlib.tlc_must_pass(r, "Report id scheme (IdsUnique on uniform shapes)")
    neg = vlib.run_tlc("rid_neg", "ReportIdCases", (IDCFG % {"part": 0, "nparts": 400}).replace("IdsOK", "TwoArraysWouldCollide"),
                       workers=2, timeout=300)
    if neg.violated != "TwoArraysWouldCollide" and "TwoArraysWouldCollide is equal to FALSE" not in neg.out:
        raise vlib.Infra("negative control for the id scheme not refuted: %s %s" % (neg.violated, neg.error))
    # real reports
    n = 40 if quick else 1500
    cases = []
    hm = handmade(rnd)
    for i in range(n):
        if i % 3 == 0:
            formulas = rnd.sample(hm, 5)
        else:
            formulas = [c01.gen_bounded_formula(rnd, rnd.choice([2, 3, 4]), 4, 3) for _ in range(5)]
        cases.append(make_case(i, rnd, formulas, i % 3))
    cases.extend(deep_cases(rnd, len(cases)))
    # a `message` key that is present but not a string (blank, number, boolean) or absent: results still need a message
    for j, mv in enumerate([None, 404, True, "ABSENT", 1.5, []]):
        c = make_case(len(cases), rnd, [atom(1), {"k": "or", "xs": [atom(2), atom(3)]}], 0)
        c["messages"] = {c["formulas"][0]["fid"]: mv, c["formulas"][1]["fid"]: mv if j % 2 else "plain"}
        cases.append(c)
    obs = vlib.run_harness("reporttree", cases, "c12", timeout=3000)
    by = {c["id"]: c for c in cases}
    lines = []
    failed = []
    stats = {"results": 0, "maxdepth": 0, "nodes": 0, "with_location": 0}
    for o in obs:
        if o.get("err"):
            failed.append(o)         # no report, nothing for C12 to say (whether it should have compiled is C07's business)
            continue
        if o.get("report") is None:
            V.disagree("report is not a valid document: %s" % o["valid"][:60], {"case": by[o["id"]], "valid": o["valid"]})
            continue
        lines.append({"id": o["id"], "valid": o["valid"], "report": o["report"], "instanceIds": o["instanceIds"],
                      "graphIds": o["graphIds"], "validations": o["validations"]})
        measure(o["report"], stats, 0)
    if len(failed) > len(obs) // 3:
        raise vlib.Infra("%d of %d validations returned an error instead of a report: %s" % (len(failed), len(obs), failed[0]["err"][:300]))
    lines.extend(cli_reports(V))
    tdir = os.path.join(vlib.BUILD, "traces")
    os.makedirs(tdir, exist_ok=True)
    chunks = [lines[i::8] for i in range(8) if lines[i::8]]

    def one(i):
        fp = os.path.join(tdir, "c12.%d.ndjson" % i)
        vlib.write_ndjson(fp, chunks[i])
        return vlib.run_tlc("trace_c12_%d" % i, "ReportTrace", TRCFG, workers=1, timeout=3000, env={"REPORT_TRACE": fp})
    rejected = []
    trs = []
    with ThreadPoolExecutor(max_workers=8) as ex:
        for tr in ex.map(one, range(len(chunks))):
            trs.append(tr)
            rej = None
            for s in tr.prints:
                if s.startswith("REJECTED "):
                    rej = json.loads(s[9:])
            if rej is None or tr.error:
                raise vlib.Infra("ReportTrace did not complete: %s\n%s" % (tr.error, tr.out[-2000:]))
            rejected.extend(rej)
    oby = {o["id"]: o for o in obs}
    for rid in sorted(rejected):
        if rid.startswith("cli-"):
            V.disagree("malformed report written by the command line tool", {"case": rid, "inputs": CLI_INPUTS[rid.split("-")[1]]})
            continue
        V.disagree("malformed report (%s)" % diagnose(oby[rid]), {"case": by[rid], "report": oby[rid]["report"]})
    selftest(lines, tdir, set(rejected))
    rc = V.finish()
    vlib.write_evidence("C12", tier, {
        "states": sum(r.distinct for r in rs) + sum(t.distinct for t in trs),
        "transitions": sum(r.generated for r in rs) + sum(t.generated for t in trs),
        "traces_validated_against_impl": len(lines),
        "evaluations": len(cases), "distinct_nontrivial": sum(1 for ln in lines if ln["report"]["arrays"].get("result")),
        "rule": "id scheme checked injective by TLC on every uniform tree shape (depth<=3, 1..3 traces, 0..2 sub-results, "
                "with/without locations; %d shapes in this run); %d real reports from profiles built for several traces per "
                "result (or-branches), several sub-results per trace (nested over failing children x inner branches), nesting "
                "depth 1..4, three severities, with/without lexical locations, projected to trees and validated by TLC "
                "(ReportTrace: every typed node has an @id, all @ids of the document are pairwise distinct, focus nodes are "
                "graph node ids, names are defined validations or `nested`, messages and traces non-empty, component/resultPath present); non-trivial = report with results"
                % (sum(r.distinct for r in rs), len(lines)),
        "report_stats": stats, "validations_without_report": len(failed),
        "samples": [{"id": ln["id"], "result_ids": [r["id"] for r in ln["report"]["arrays"].get("result", [])][:6]} for ln in lines[:4]],
        "checker_cmd": trs[0].cmd if trs else "", "negative_control": "a node kind with two array slots -> colliding ids",
        "known_findings_hit": sorted(V.known_hits),
    }, time.time() - t0, violations=len(V.violations))
    return rc


KINDS = [("ValidationResultNode", "result"), ("TraceMessageNode", "trace"), ("TraceValueNode", "traceValue"),
         ("LocationNode", "location"), ("RangeNode", "range"), ("PositionNode", "position"), ("ReportNode", "report")]
CLI_INPUTS = {
    "percent": (corpus.OK_PROFILE.replace("p is required", "100% of p is required %s %d %v %!"),
                json.dumps([corpus.node(1, q="a%sb"), {"@id": "http://example.org/my%20node%n2", "@type": [corpus.EX + "T"]},
                            corpus.node(3, p="x", q="%d%d%d%d")])),
    "plain": (corpus.OK_PROFILE_NESTED, corpus.OK_DOCS[2]),
}


def project(m):
    """the same projection as harness/cmd/acvh/reporttree.go projectTree, for report texts produced outside the harness"""
    n = {"id": m.get("@id", "") if isinstance(m.get("@id", ""), str) else "", "kind": "untyped", "scalars": {}, "maps": {}, "arrays": {}}
    for t in m.get("@type", []) if isinstance(m.get("@type"), list) else []:
        for suffix, kind in KINDS:
            if isinstance(t, str) and t.endswith(suffix) and n["kind"] == "untyped":
                n["kind"] = kind
    mixed = []
    for k, v in m.items():
        if k in ("@id", "@type"):
            continue
        if isinstance(v, dict):
            n["maps"][k], mx = project(v)
            mixed += mx
        elif isinstance(v, list) and v and any(isinstance(e, dict) for e in v):
            if not all(isinstance(e, dict) for e in v):
                mixed.append(k)
                n["scalars"][k] = json.dumps(v)
                continue
            n["arrays"][k] = []
            for e in v:
                t, mx = project(e)
                n["arrays"][k].append(t)
                mixed += mx
        else:
            n["scalars"][k] = v if isinstance(v, str) else ("null" if v is None else json.dumps(v))
    return n, mixed


def cli_reports(V):
    """the reports `acv validate` prints and writes are reports too: project them like the library's"""
    import subprocess
    acv = vlib.build_cli()
    d = os.path.join(vlib.BUILD, "c12cli")
    os.makedirs(d, exist_ok=True)
    out = []
    for name, (prof, data) in sorted(CLI_INPUTS.items()):
        pf, df, of = os.path.join(d, name + ".yaml"), os.path.join(d, name + ".jsonld"), os.path.join(d, name + ".out.json")
        open(pf, "w").write(prof)
        open(df, "w").write(data)
        if os.path.exists(of):
            os.remove(of)
        p1 = subprocess.run([acv, "validate", pf, df], capture_output=True, timeout=120)
        p2 = subprocess.run([acv, "validate", pf, df, of], capture_output=True, timeout=120)
        if p1.returncode != 0 or p2.returncode != 0:
            raise vlib.Infra("acv validate fails on a valid pair: %s" % (p1.stderr or p2.stderr)[-300:])
        graph = [g["@id"] for g in json.loads(data)] if name == "percent" else ["http://example.org/n1", "http://example.org/n2", "http://example.org/n3"]
        for how, text in (("stdout", p1.stdout.decode(errors="replace")), ("file", open(of, errors="replace").read())):
            line = {"id": "cli-%s-%s" % (name, how), "valid": "", "instanceIds": [], "graphIds": graph, "validations": ["v1", "w1"],
                    "report": {"id": "x", "kind": "report", "scalars": {}, "maps": {}, "arrays": {}}}
            try:
                doc = json.loads(text)
                root = doc[0]["doc:encodes"][0]
                if len(doc) != 1 or len(doc[0]["doc:encodes"]) != 1:
                    line["valid"] = "not exactly one instance / node"
                line["instanceIds"] = [doc[0].get("@id", "")] + [x.get("@id", "") for x in doc[0].get("doc:processingData", []) if isinstance(x, dict)]
                line["report"], mixed = project(root)
                if mixed:
                    line["valid"] = "a list of nodes holds an entry that is not a node"
            except Exception as ex:        # not a JSON document of the expected outline
                line["valid"] = "not a JSON report: %s" % str(ex)[:80]
            out.append(line)
    return out


def measure(node, stats, depth):
    stats["nodes"] += 1
    if node["kind"] == "result":
        stats["results"] += 1
        stats["maxdepth"] = max(stats["maxdepth"], depth)
    if node["kind"] == "location":
        stats["with_location"] += 1
    for m in node["maps"].values():
        measure(m, stats, depth)
    for k, arr in node["arrays"].items():
        for x in arr:
            measure(x, stats, depth + (1 if k == "subResult" else 0))


def diagnose(o):
    ids = []

    def walk(n):
        ids.append(n["id"])
        for m in n["maps"].values():
            walk(m)
        for arr in n["arrays"].values():
            for x in arr:
                walk(x)
    walk(o["report"])
    ids += o["instanceIds"]
    if len(set(ids)) != len(ids):
        return "duplicate @id"
    if "" in ids:
        return "node without @id"
    return "shape/grounding"


def selftest(lines, tdir, rejected=frozenset()):
    cand = [ln for ln in lines if len(ln["report"]["arrays"].get("result", [])) >= 2 and ln["id"] not in rejected
            and all(r["arrays"].get("trace") for r in ln["report"]["arrays"]["result"][:2])]
    if not cand:
        if rejected:
            return      # every candidate is itself rejected: the verdict stands without the self-test
        raise vlib.Infra("selftest: no report with two results")
    good = copy.deepcopy(cand[0])
    good["id"] = "good"
    dup = copy.deepcopy(cand[0])
    dup["id"] = "dup-id"
    rs = dup["report"]["arrays"]["result"]
    rs[1]["arrays"]["trace"][0]["id"] = rs[0]["arrays"]["trace"][0]["id"]
    ung = copy.deepcopy(cand[0])
    ung["id"] = "ungrounded"
    ung["report"]["arrays"]["result"][0]["scalars"]["focusNode"] = "http://example.org/n/not-in-graph"
    fp = os.path.join(tdir, "c12_self.ndjson")
    vlib.write_ndjson(fp, [good, dup, ung])
    tr = vlib.run_tlc("trace_c12_self", "ReportTrace", TRCFG, workers=1, timeout=300, env={"REPORT_TRACE": fp})
    rej = None
    for s in tr.prints:
        if s.startswith("REJECTED "):
            rej = set(json.loads(s[9:]))
    if rej != {"dup-id", "ungrounded"}:
        raise vlib.Infra("ReportTrace self-test failed: rejected=%s\n%s" % (rej, tr.out[-1500:]))


def replay(path):
    doc = json.load(open(path))
    c = doc["case"]["case"]
    obs = vlib.run_harness("reporttree", [c], "replay_c12", shards=1)
    tdir = os.path.join(vlib.BUILD, "traces")
    fp = os.path.join(tdir, "c12_replay.ndjson")
    o = obs[0]
    vlib.write_ndjson(fp, [{"id": o["id"], "valid": o["valid"], "report": o["report"], "instanceIds": o["instanceIds"],
                            "graphIds": o["graphIds"], "validations": o["validations"]}])
    tr = vlib.run_tlc("trace_c12_replay", "ReportTrace", TRCFG, workers=1, timeout=300, env={"REPORT_TRACE": fp})
    if any(s.startswith("REJECTED [\"") for s in tr.prints):
        print("VIOLATION property=C12 replay=%s" % path)
        return 1
    print("report accepted")
    return 0
