"""Shared pipeline for the properties decided on the ACV system model
(C04, C09, C11, C17): enumerate abstract cases with TLC, render them with the
corpus, run the real entry points with `acvh proto`, turn the observations
into an ndjson trace and let TLC validate it against spec/trace/ACVTrace.tla."""
import json
import os

import corpus
import vlib
from vlib import Infra

ACV_CONSTS = """CONSTANTS
  Procs = {"p1"}
  Profiles <- MCProfiles
  Docs <- MCDocs
  Chans = {"c1"}
  NoChan = "nochan"
  PClass <- MCPClass
  DClass <- MCDClass
  GenvarsOf <- TrGenvarsOf
  MaxCalls = 1000000
  SwallowDecodeError = FALSE
  SplitGenvar = FALSE
  LeakHandleState = FALSE
  CloseOnCompileSuccess = FALSE
  SkipCloseOnError = FALSE
  PanicEscapes = FALSE
  LockAcrossDispatch = FALSE
"""

TRACE_CFG = "SPECIFICATION TraceSpec\n" + ACV_CONSTS + """INVARIANT TraceInvariants
POSTCONDITION Report
CHECK_DEADLOCK FALSE
"""


def model_check(cfgname, what, workers=None, timeout=900):
    cfg = open(os.path.join(vlib.SPEC, "cfg", cfgname + ".cfg")).read()
    r = vlib.run_tlc(cfgname, "MCACV", cfg, workers=workers, timeout=timeout)
    vlib.tlc_must_pass(r, what)
    return r


def negative_control(flag, expect):
    """Turn one named deviation on; TLC must refute `expect` (non-vacuity of the invariants)."""
    cfg = open(os.path.join(vlib.SPEC, "cfg", "ACV_protocol.cfg" if flag not in ("SplitGenvar", "LockAcrossDispatch") else "ACV_concurrent.cfg")).read()
    cfg = cfg.replace("%s = FALSE" % flag, "%s = TRUE" % flag)
    r = vlib.run_tlc("neg_" + flag, "MCACV", cfg, timeout=600)
    if r.violated not in (expect if isinstance(expect, (list, tuple)) else [expect]):
        raise Infra("negative control %s: expected %s to be violated, got violated=%s error=%s\n%s"
                    % (flag, expect, r.violated, r.error, r.out[-1500:]))
    return r


def abstract_cases():
    cfg = open(os.path.join(vlib.SPEC, "cfg", "ACVCases.cfg")).read()
    r = vlib.run_tlc("ACVCases", "MCACVCases", cfg, workers=4, timeout=120)
    vlib.tlc_must_pass(r, "ACVCases")
    cs = vlib.cases_from_prints(r)
    if not cs:
        raise Infra("no cases produced by ACVCases")
    return cs, r


def render(abstract, per_class, rnd):
    """abstract case -> list of concrete harness cases (at most per_class representatives)."""
    profs, docs = corpus.representatives(abstract["pclass"], abstract["dclass"])
    pairs = [(p, d) for p in profs for d in docs]
    rnd.shuffle(pairs)
    # representatives that are always there whatever the sample: a byte order mark in front of the data, the empty text
    must = [(p, d) for p, d in pairs if d in ("\ufeff{}", "")][:2]
    pairs = must + [x for x in pairs if x not in must]
    per_class = max(per_class, len(must))
    out = []
    for p, d in pairs[:per_class]:
        out.append({"entry": abstract["entry"], "chan": abstract["chan"], "profile": p, "data": d,
                    "pclass": abstract["pclass"], "dclass": abstract["dclass"]})
    return out


FAILING_P = ("parseError", "genError", "regoError", "reportError")
FAILING_D = ("notJson", "ldReject", "evalError")


def to_trace(obs_rows, scope):
    """observations -> (trace lines, id->row).  Every line carries `nx`, the index of the line
    that follows its case (used by TraceGiveUp).

    `scope` projects the observation onto what the property of the calling check talks about, so that a check
    only ever alarms about its own property:
      C11  events, closing and milestones; input classes are left to TLC to infer (the events must be explainable by
           SOME profile / data class with the observed outcome), reports are not compared
      C04  the outcome kind for the input class the text was built to be in; no events (calls are presented without a
           channel, the stage steps are silent), reports are not compared
      C17  the outcome kind only (report or error, nothing else); classes are inferred except that a node-less
           document under a profile that compiles keeps its class, for which the spec demands a conforming report
      C09 / C10  every call must return what the FIRST observation of the same (profile, document, configuration) key
           returned - the fresh / solo reference the harness puts first: classes are relabelled from that reference, the
           report hash (or the failure kind) is bound per key in the trace spec; no events"""
    lines = []
    byid = {}
    relative = scope in ("C09", "C10")
    for o in obs_rows:
        if o.get("skipped"):
            continue
        byid[o["id"]] = o
        case_lines = []
        calls = o["calls"]

        def keyof(c):
            if c.get("dkey"):
                return c.get("pkey", "") + "|" + c["dkey"]
            return (c.get("pkey", "") + "|@compile") if c["entry"] == "compile" else ""

        first = {}
        for c in calls:
            first.setdefault(keyof(c), c["kind"])
        for i, c in enumerate(calls):
            dclass = c.get("dclass") or o["dclass"]
            pclass = c.get("pclass") or o["pclass"]
            kind = c["kind"]
            key, sha, conf = "", "", "true"
            has_chan = c["hasChan"]
            if scope == "C11":
                pclass, dclass = "unknown", "unknown"
            elif scope == "C04":
                has_chan = False
            elif scope == "C17":
                has_chan = False
                if not (pclass == "ok" and dclass == "okNoNodes"):
                    pclass, dclass = "unknown", "unknown"
                else:
                    conf = "na" if c.get("conforms") is None else ("true" if c["conforms"] else "false")
            elif relative:
                has_chan = False
                key = keyof(c)
                ref = first.get(key, kind)
                if c["entry"] == "compile":
                    if ref == "handle":
                        pclass = "ok"
                    elif pclass not in FAILING_P:
                        pclass = "regoError"
                elif ref == "report":
                    pclass, dclass = "ok", "ok"
                elif pclass not in FAILING_P and dclass not in FAILING_D:
                    dclass = "notJson"
                sha = c.get("sha", "") if kind == "report" else "kind:" + kind + (":" + c["errsha"] if c.get("errsha") else "")
                if kind not in ("report", "handle"):
                    kind = "error"      # a panic or a timeout that the reference shows as well is not this property's business
            else:
                raise Infra("unknown trace scope %s" % scope)
            case_lines.append({"e": "call", "entry": c["entry"], "hasChan": has_chan, "pclass": pclass,
                               "dclass": dclass if c["entry"] != "compile" else "unknown"})
            if scope == "C11":
                for t in c["events"]:
                    case_lines.append({"e": "ev", "t": t})
            case_lines.append({"e": "ret", "kind": kind, "closed": bool(c["closed"]), "conforms": conf, "key": key, "sha": sha})
        if scope == "C10":
            for vals in (o.get("genvars") or []):
                case_lines.append({"e": "genvars", "vals": vals})
        ms = o.get("milestones") or []
        has_chan = scope == "C11" and any(c["hasChan"] for c in calls)
        case_lines.append({"e": "end", "id": o["id"], "hasMs": bool(has_chan and any(c["events"] for c in calls)),
                           "ms": [m["op"] for m in ms],
                           "msok": all(m["durNonNeg"] and m["startOK"] for m in ms)
                                   and all(c.get("timesOK", True) for c in calls)})
        nx = len(lines) + len(case_lines) + 1
        for cl in case_lines:
            cl["nx"] = nx
            cl.setdefault("id", o["id"])
        lines.extend(case_lines)
    return lines, byid


def validate_trace(name, lines, timeout=1800):
    """Returns (rejected ids, TLCResult)."""
    d = os.path.join(vlib.BUILD, "traces")
    os.makedirs(d, exist_ok=True)
    path = os.path.join(d, name + ".ndjson")
    vlib.write_ndjson(path, lines)
    r = vlib.run_tlc("trace_" + name, "MCACVTrace", TRACE_CFG, workers=1, timeout=timeout,
                     env={"ACV_TRACE": path})
    rejected = None
    for s in r.prints:
        if s.startswith("REJECTED "):
            rejected = json.loads(s[len("REJECTED "):])
    if r.violated:
        # an invariant of the design spec failed on a state of the trace: find the case via the trace dump
        raise Infra("design invariant %s violated during trace validation (should be unreachable: "
                    "trace actions reuse the design's actions)\n%s" % (r.violated, r.out[-2000:]))
    if rejected is None or r.error:
        raise Infra("trace validation did not complete: %s\n%s" % (r.error, r.out[-3000:]))
    return rejected, r


def run_cases(name, cases, shards=None):
    for i, c in enumerate(cases):
        c.setdefault("id", "%s-%05d" % (name, i))
        c.setdefault("debug", i % 3 == 1)      # the debug argument must be inert
        c.setdefault("reuseVar", i % 2 == 0)   # the caller's channel variable may be one that earlier calls used too
    return vlib.run_harness("proto", cases, name, shards=shards)


def failure_key(o):
    """Canonical description of a rejected case: what was observed that the spec does not allow."""
    parts = []
    for c in o["calls"]:
        k = c["kind"]
        s = "%s:%s" % (c["entry"], k)
        if k == "panic":
            msg = (c.get("panic") or "")
            s += "(%s)" % classify_panic(msg, o.get("stack", ""))
        parts.append(s)
    return "%s/%s [%s]" % (o["pclass"], o["dclass"], ",".join(parts))


def classify_panic(msg, stack):
    import re
    site = ""
    for line in stack.splitlines():
        m = re.search(r"amf-custom-validator/((?:internal|pkg|cmd)/[\w/]+\.go):(\d+)", line)
        if m and "harness" not in line:
            site = m.group(1)
            break
    msg = re.sub(r"0x[0-9a-f]+", "0x?", msg)
    msg = re.sub(r"\d+", "N", msg)
    return (msg[:60] + "@" + site) if site else msg[:60]


def replay(pid, path):
    """Re-run the concrete case stored in a violation file and validate its trace again."""
    doc = json.load(open(path))
    case = doc["case"]["case"] if "case" in doc["case"] else doc["case"]
    case = dict(case)
    case["id"] = "replay-0"
    obs = vlib.run_harness("proto", [case], "replay_" + pid, shards=1)
    lines, byid = to_trace(obs, pid)
    rejected, _ = validate_trace("replay_" + pid, lines)
    print(json.dumps(obs[0], indent=1)[:3000])
    if rejected:
        print("VIOLATION property=%s replay=%s" % (pid, path))
        return 1
    print("trace accepted by the specification")
    return 0
