"""Common machinery for the /verif checks: building the harness from /repo's
working tree, running TLC in scratch directories, sharding replay work,
matching known findings, writing evidence.  Python standard library only."""
import glob
import hashlib
import json
import os
import random
import re
import shutil
import subprocess
import sys
import time

VERIF = os.path.dirname(os.path.dirname(os.path.abspath(__file__)))
REPO = os.environ.get("VERIF_REPO", "/repo")
# VERIF_REPO / VERIF_BUILD / VERIF_EVID are for evaluating seeded changes on a scratch copy of the repository
# (tools/evalcopy.py) without touching /repo or the committed evidence; the registered commands never set them.
BUILD = os.environ.get("VERIF_BUILD") or os.path.join(VERIF, ".build")
SPEC = os.path.join(VERIF, "spec")
EVID = os.environ.get("VERIF_EVID") or os.path.join(VERIF, "evidence")
NCPU = os.cpu_count() or 4

GOENV = dict(os.environ, GOFLAGS="-mod=mod", GOPROXY="off", GOSUMDB="off",
             GOTOOLCHAIN="local", CGO_ENABLED=os.environ.get("CGO_ENABLED", "1"))


class Infra(Exception):
    """Infrastructure / specification problem: exit 2, never a verdict."""


class Blocked(Infra):
    """A harness process found the library blocked (a call did not return) after the warm-up history."""


def log(*a):
    print(*a, file=sys.stderr, flush=True)


def seed():
    try:
        return int(os.environ.get("VERIF_SEED", "1"))
    except ValueError:
        return 1


# --------------------------------------------------------------------------
# building
_built = {}


def build_harness(race=False):
    """(Re)build the harness against /repo's current working tree with hooks on."""
    key = "race" if race else "plain"
    if key in _built:
        return _built[key]
    os.makedirs(BUILD, exist_ok=True)
    out = os.path.join(BUILD, "acvh-race" if race else "acvh")
    hdir = os.path.join(VERIF, "harness")
    if REPO != "/repo":         # scratch evaluation: private copy of the harness source bound to the scratch repository
        src = os.path.join(BUILD, "harness-src")
        shutil.rmtree(src, ignore_errors=True)
        shutil.copytree(hdir, src)
        gm = os.path.join(src, "go.mod")
        text = open(gm).read().replace("=> /repo", "=> " + REPO)
        open(gm, "w").write(text)
        hdir = src
    shutil.copyfile(os.path.join(REPO, "go.sum"), os.path.join(hdir, "go.sum"))
    cmd = ["go", "build", "-tags", "verif"] + (["-race"] if race else []) + ["-o", out, "./cmd/acvh"]
    t = time.time()
    p = subprocess.run(cmd, cwd=hdir, env=GOENV, capture_output=True, text=True)
    if p.returncode != 0:
        raise Infra("harness build failed:\n" + p.stdout + p.stderr)
    log("[build] harness%s %.1fs" % (" (race)" if race else "", time.time() - t))
    _built[key] = out
    return out


def build_cli():
    if "cli" in _built:
        return _built["cli"]
    os.makedirs(BUILD, exist_ok=True)
    out = os.path.join(BUILD, "acv")
    p = subprocess.run(["go", "build", "-o", out, "./cmd"], cwd=REPO, env=GOENV,
                       capture_output=True, text=True)
    if p.returncode != 0:
        raise Infra("acv build failed:\n" + p.stdout + p.stderr)
    _built["cli"] = out
    return out


# --------------------------------------------------------------------------
# TLC
class TLCResult:
    def __init__(self):
        self.generated = 0
        self.distinct = 0
        self.depth = 0
        self.ok = False
        self.violated = None     # name of violated invariant / property
        self.error = None        # other error text
        self.out = ""
        self.prints = []         # decoded PrintT strings
        self.wall = 0.0
        self.cmd = ""
        self.postcondition_failed = False


def scratch(name):
    d = os.path.join(BUILD, "tlc", name)
    shutil.rmtree(d, ignore_errors=True)
    os.makedirs(d)
    return d


def run_tlc(name, module, cfg_text, workers=None, timeout=600, simulate=None, depth=None,
            extra_files=None, env=None, seed_=None, deque=False, keep=False, mode_args=None):
    """Run TLC on spec/<module>.tla with the given cfg text in a scratch copy of spec/."""
    d = scratch(name)
    for f in glob.glob(os.path.join(SPEC, "*.tla")) + glob.glob(os.path.join(SPEC, "trace", "*.tla")):
        shutil.copy(f, d)
    for src, dst in (extra_files or {}).items():
        shutil.copy(src, os.path.join(d, dst))
    with open(os.path.join(d, module + ".cfg"), "w") as f:
        f.write(cfg_text)
    w = workers or NCPU
    cmd = ["tlc", "-workers", str(w), "-metadir", os.path.join(d, "md"), "-noGenerateSpecTE"]
    if simulate:
        cmd += ["-simulate", simulate]
    if depth:
        cmd += ["-depth", str(depth)]
    if seed_ is not None:
        cmd += ["-seed", str(seed_)]
    cmd += (mode_args or [])
    cmd += [module + ".tla"]
    e = dict(os.environ)
    e["JAVA_TOOL_OPTIONS"] = (e.get("JAVA_TOOL_OPTIONS", "") + " -Xss512m").strip()
    if deque:
        e["JAVA_TOOL_OPTIONS"] = (e.get("JAVA_TOOL_OPTIONS", "") +
                                  " -Dtlc2.tool.queue.IStateQueue=StateDeque").strip()
    e.update(env or {})
    r = TLCResult()
    r.cmd = " ".join(cmd)
    t = time.time()
    try:
        p = subprocess.run(["timeout", str(timeout)] + cmd, cwd=d, env=e, capture_output=True, text=True)
    except Exception as ex:  # pragma: no cover
        raise Infra("cannot run tlc: %s" % ex)
    r.wall = time.time() - t
    r.out = p.stdout + p.stderr
    if p.returncode == 124:
        r.error = "timeout after %ss" % timeout
    for line in p.stdout.splitlines():
        if line.startswith('"') and line.endswith('"'):
            try:
                r.prints.append(json.loads(line))
            except Exception:
                pass
        m = re.match(r"(\d+) states generated, (\d+) distinct states found", line)
        if m:
            r.generated, r.distinct = int(m.group(1)), int(m.group(2))
        m = re.match(r"The depth of the complete state graph search is (\d+)", line)
        if m:
            r.depth = int(m.group(1))
        m = re.match(r"Error: Invariant (\S+) is violated", line)
        if m:
            r.violated = m.group(1)
        m = re.match(r"Error: Action property (\S+) is violated", line)
        if m:
            r.violated = m.group(1)
        if "Temporal properties were violated" in line:
            r.violated = r.violated or "temporal"
        if "Error: Postcondition" in line or "The postcondition" in line and "false" in line.lower():
            r.postcondition_failed = True
        if line.startswith("Error:") and r.error is None and r.violated is None and not r.postcondition_failed:
            if "Invariant" not in line and "Action property" not in line and "behavior up to" not in line \
                    and "Temporal" not in line:
                r.error = line
    r.ok = (p.returncode == 0 and r.violated is None and r.error is None and not r.postcondition_failed
            and "No error has been found" in p.stdout or (simulate and p.returncode == 0))
    if not keep and r.ok:
        shutil.rmtree(os.path.join(d, "md"), ignore_errors=True)
    r.dir = d
    return r


def run_tlc_parts(name, module, cfg_template, nparts, timeout=900, workers=1):
    """Run nparts TLC processes in parallel; cfg_template has %(part)d and %(nparts)d."""
    from concurrent.futures import ThreadPoolExecutor
    def one(i):
        return run_tlc("%s_p%02d" % (name, i), module, cfg_template % {"part": i, "nparts": nparts},
                       workers=workers, timeout=timeout)
    with ThreadPoolExecutor(max_workers=NCPU) as ex:
        return list(ex.map(one, range(nparts)))


def tlc_must_pass(r, what):
    if not r.ok:
        raise Infra("TLC did not verify %s: violated=%s error=%s\n%s" % (what, r.violated, r.error, r.out[-3000:]))
    return r


def cases_from_prints(r, prefix="CASE "):
    out = []
    for s in r.prints:
        if s.startswith(prefix):
            out.append(json.loads(s[len(prefix):]))
    return out


# --------------------------------------------------------------------------
# sharded harness runs
def write_ndjson(path, rows):
    with open(path, "w") as f:
        for r in rows:
            f.write(json.dumps(r, ensure_ascii=False))
            f.write("\n")


def read_ndjson(path):
    out = []
    with open(path) as f:
        for line in f:
            line = line.strip()
            if line:
                out.append(json.loads(line))
    return out


def run_harness(sub, rows, name, shards=None, race=False, timeout=1800, extra_args=None, env=None):
    """Run `acvh <sub> in out` over rows split in shards; returns output rows (in shard order)."""
    exe = build_harness(race=race)
    d = os.path.join(BUILD, "run", name)
    shutil.rmtree(d, ignore_errors=True)
    os.makedirs(d)
    n = max(1, min(shards or NCPU, len(rows)))
    procs = []
    for i in range(n):
        part = rows[i::n]
        inp = os.path.join(d, "in%d.ndjson" % i)
        outp = os.path.join(d, "out%d.ndjson" % i)
        write_ndjson(inp, part)
        e = dict(os.environ)
        e.update(env or {})
        p = subprocess.Popen(["timeout", str(timeout), exe, sub] + (extra_args or []) + [inp, outp],
                             stdout=subprocess.PIPE, stderr=subprocess.PIPE, text=True, env=e)
        procs.append((p, outp, len(part)))
    out = []
    stderr_all = []
    for p, outp, cnt in procs:
        so, se = p.communicate()
        stderr_all.append(se)
        if p.returncode == 3 and "BLOCKED-AFTER-WARMUP" in se:
            for q, _, _ in procs:
                if q.poll() is None:
                    q.kill()
            raise Blocked(se.strip().splitlines()[-1])
        if p.returncode != 0:
            txt = so + se
            raise Infra("harness %s shard failed rc=%s: %s" % (sub, p.returncode, txt if len(txt) < 4000 else txt[:1200] + "\n[...]\n" + txt[-2500:]))
        rows_out = read_ndjson(outp)
        if len(rows_out) != cnt:
            raise Infra("harness %s shard produced %d rows for %d cases" % (sub, len(rows_out), cnt))
        out.extend(rows_out)
    run_harness.last_stderr = "\n".join(stderr_all)
    return out


# --------------------------------------------------------------------------
# findings, violations, evidence
def load_known():
    p = os.path.join(VERIF, "known_findings.json")
    if not os.path.exists(p):
        return {"findings": [], "fixed": []}
    with open(p) as f:
        return json.load(f)


class Verdict:
    """Collects disagreements for one property run and decides the exit status."""

    def __init__(self, pid):
        self.pid = pid
        self.known = [k for k in load_known().get("findings", []) if k["property"] == pid]
        self.violations = []      # (key, detail)
        self.known_hits = {}

    def disagree(self, key, detail):
        """key: canonical description of the failing input class; detail: replayable case."""
        for k in self.known:
            if k["key"] == key:
                self.known_hits.setdefault(key, detail)
                return
        self.violations.append((key, detail))

    def finish(self):
        shutil.rmtree(os.path.join(EVID, "replay", self.pid), ignore_errors=True)
        for key in sorted(self.known_hits):
            print("KNOWN-FINDING: property=%s %s" % (self.pid, key), flush=True)
        if not self.violations:
            return 0
        d = os.path.join(EVID, "replay", self.pid)
        os.makedirs(d, exist_ok=True)
        seen = set()
        n = 0
        for key, detail in self.violations:
            if key in seen:
                continue
            seen.add(key)
            n += 1
            if n > 20:
                break
            path = os.path.join(d, "violation_%02d.json" % n)
            with open(path, "w") as f:
                json.dump({"property": self.pid, "key": key, "case": detail}, f, indent=1, ensure_ascii=False)
            print("VIOLATION property=%s replay=%s" % (self.pid, path), flush=True)
            log("  key=%s" % key)
        return 1


def write_evidence(pid, tier, coverage, wall, violations=0, level="model_checking", assumptions=None):
    os.makedirs(EVID, exist_ok=True)
    ev = {
        "property_id": pid, "tier": tier, "seed": seed(), "level": level,
        "coverage": coverage, "assumptions": assumptions or [], "wall_s": round(wall, 2),
        "violations": violations,
    }
    with open(os.path.join(EVID, pid + ".json"), "w") as f:
        json.dump(ev, f, indent=1, ensure_ascii=False)


def trunc(x, n=600):
    s = json.dumps(x, ensure_ascii=False) if not isinstance(x, str) else x
    return s if len(s) <= n else s[:n] + "..."


def sha(s):
    return hashlib.sha256(s.encode()).hexdigest()[:12]


def rng(extra=0):
    return random.Random(seed() * 1000003 + extra)
