"""C08 - profiles cannot reach the network or the host."""
import json
import os
import subprocess
import time

import vlib

DANGEROUS = ["http.send", "net.lookup_ip_addr", "opa.runtime", "rego.parse_module", "walk"]


def run(tier):
    t0 = time.time()
    V = vlib.Verdict("C08")
    cfg = open(os.path.join(vlib.SPEC, "cfg", "Sandbox.cfg")).read()
    mc = vlib.run_tlc("sandbox", "MCSandbox", cfg, workers=4, timeout=300)
    vlib.tlc_must_pass(mc, "Sandbox design model")
    neg = vlib.run_tlc("sandbox_neg", "MCSandbox", cfg.replace("DesignDenyList", "ShippedDenyList"), workers=4, timeout=300)
    if neg.violated not in ("DangerousNeverAccepted", "NoDangerousEffect"):
        raise vlib.Infra("negative control (deny-list of the pinned tree) not refuted: %s %s" % (neg.violated, neg.error))
    cases = vlib.cases_from_prints(mc)
    if len(cases) < 900:
        raise vlib.Infra("expected the full product of cases, got %d" % len(cases))
    # the linked engine: every dangerous name must exist in it (a renamed built-in would make the check vacuous)
    exe = vlib.build_harness()
    bl = json.loads(subprocess.run([exe, "builtins"], capture_output=True, text=True, check=True).stdout)
    missing = [b for b in DANGEROUS if b not in bl["builtins"]]
    if missing:
        raise vlib.Infra("built-ins %s are not registered in the linked engine: the deny-list model is out of date" % missing)
    for i, c in enumerate(cases):
        c["id"] = "sb%04d" % i
    obs = vlib.run_harness("sandbox", cases, "c08", timeout=1800)
    by = {c["id"]: c for c in cases}
    denied = accepted = 0
    # a dangerous case counts as rejected by the capability gate when the engine says so, or - whatever the wording of
    # the error - when the harmless controls in the same position and syntax compile (the snippet itself is sound)
    control_ok = {}
    for o in obs:
        c = by[o["id"]]
        if c["expect"] == "accepted":
            k = (c["pos"], c["syn"])
            control_ok[k] = control_ok.get(k, True) and not (o["compileErr"] or o["validateErr"] or o.get("panic"))
    for o in obs:
        c = by[o["id"]]
        detail = {"builtin": c["b"], "position": c["pos"], "syntax": c["syn"], "observation": {k: o[k] for k in o if k != "profile"},
                  "profile": o.get("profile")}
        if o.get("panic") and c["expect"] == "accepted":
            raise vlib.Infra("harness panic on %s: %s" % (c, o["panic"]))
        if o.get("panic"):
            V.disagree("%s: the profile was %s and then crashed the validator" % (c["b"], "rejected once" if o["compileErr"] else "accepted"), detail)
            continue
        if c["expect"] == "accepted":
            # control: a harmless built-in in the same position/syntax must compile, otherwise the snippet is broken
            if o["compileErr"] or o["validateErr"]:
                raise vlib.Infra("control case does not compile (harness snippet broken): %s\n%s\n%s"
                                 % (c, o.get("compileMsg") or o.get("validateMsg"), o.get("profile")))
            accepted += 1
            continue
        if o["netAttempts"] > 0:
            V.disagree("%s performed network I/O" % c["b"], detail)
        elif not o["compileErr"] or not o["validateErr"]:
            V.disagree("%s accepted (%s)" % (c["b"], "CompileProfile" if not o["compileErr"] else "Validate"), detail)
        elif not o["unsafeReason"] and not (control_ok.get((c["pos"], c["syn"])) and c["syn"] != "withMock"):
            raise vlib.Infra("case rejected for another reason than the capability gate (snippet broken): %s\n%s\n%s"
                             % (c, o.get("compileMsg"), o.get("profile")))
        else:
            denied += 1
    rc = V.finish()
    vlib.write_evidence("C08", tier, {
        "states": mc.distinct, "transitions": mc.generated, "traces_validated_against_impl": len(cases),
        "evaluations": len(cases), "distinct_nontrivial": denied,
        "rule": "full product 5 dangerous built-ins x 22 embedding positions x 11 call syntaxes (feasible cells), plus the same product for 2 "
                "harmless built-ins as controls (must compile); states of the Sandbox model enumerated by TLC; each composed "
                "module is compiled by CompileProfile and run by Validate in a process whose default transport, resolver and a "
                "local probe listener record any outbound attempt; non-trivial = dangerous call rejected with the engine's "
                "'unsafe built-in' error and zero network attempts",
        "exhaustive": True, "controls_accepted": accepted, "linked_engine_builtins": bl["count"],
        "samples": [{k: c[k] for k in ("b", "pos", "syn", "expect")} for c in cases[:: max(1, len(cases) // 6)]][:6],
        "checker_cmd": mc.cmd, "negative_control": "ShippedDenyList -> %s" % neg.violated,
        "known_findings_hit": sorted(V.known_hits),
    }, time.time() - t0, violations=len(V.violations),
        assumptions=["OPA's UnsafeBuiltins check is trusted to see every call in the compiled module; the spec contributes the "
                     "complete position x syntax product, not a model of OPA"])
    return rc


def replay(path):
    doc = json.load(open(path))
    c = doc["case"]
    case = {"id": "replay", "b": c["builtin"], "pos": c["position"], "syn": c["syntax"]}
    obs = vlib.run_harness("sandbox", [case], "replay_c08", shards=1)
    print(json.dumps(obs[0], indent=1)[:3000])
    o = obs[0]
    if not o["compileErr"] or not o["validateErr"] or o["netAttempts"] > 0:
        print("VIOLATION property=C08 replay=%s" % path)
        return 1
    return 0
