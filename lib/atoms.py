"""C01, part (C): the documented meaning of every atomic constraint on properties with 0..4 values
(spec/Atoms.tla, cases from spec/AtomCases.tla), replayed through Validate and CompileProfile+ValidateCompiled."""
import json

import vlib

EX = "http://example.org/ns#"
CFG = "INIT Init\nNEXT Next\nINVARIANTS DesignFacts JudgedNegationIsComplement Emit\n"

# kind -> (property, YAML of the constraint); the parameters are the ones Atoms.tla's Good/Sat are written for
ATOM_SPECS = {
    "minInclusive": ("ex.num", "minInclusive: 2"), "maxInclusive": ("ex.num", "maxInclusive: 3"),
    "minExclusive": ("ex.num", "minExclusive: 1"), "maxExclusive": ("ex.num", "maxExclusive: 4"),
    "minInclusiveFloat": ("ex.num", "minInclusive: 1.5"), "maxExclusiveFloat": ("ex.num", "maxExclusive: 3.5"),
    "minLength": ("ex.str", "minLength: 2"), "maxLength": ("ex.str", "maxLength: 3"), "exactLength": ("ex.str", "exactLength: 2"),
    "pattern": ("ex.str", "pattern: ^a{2,3}$"), "in": ("ex.str", "in: [aa, aaa]"), "inNumbers": ("ex.num", "in: [2, 3]"),
    "containsAll": ("ex.str", "containsAll: [aa, aaa]"), "containsSome": ("ex.str", "containsSome: [aa, aaa]"),
    "minInclusiveFine": ("ex.fine", "minInclusive: 2.0000001"), "maxExclusiveFine": ("ex.fine", "maxExclusive: 3.0000001"),
    "patternLeadingBlank": ("ex.str", 'pattern: " a{2,3}$"'),
    "inHalves": ("ex.half", "in: [2.5, 3.5]"), "inIntsOnFractions": ("ex.frac", "in: [2, 3]"),
    "containsAllHalves": ("ex.half", "containsAll: [2.5, 3.5]"), "containsSomeHalves": ("ex.half", "containsSome: [2.5, 3.5]"),
    "minCount": ("ex.num", "minCount: 2"), "maxCount": ("ex.num", "maxCount: 2"), "exactCount": ("ex.num", "exactCount: 2"),
    "lessThanProperty": ("ex.num", "lessThanProperty: ex.num2"),
    "lessThanOrEqualsToProperty": ("ex.num", "lessThanOrEqualsToProperty: ex.num2"),
    "equalsToProperty": ("ex.num", "equalsToProperty: ex.num2"),
    "disjointWithProperty": ("ex.num", "disjointWithProperty: ex.num2"),
}


NON_INTEGER = ("inHalves", "inIntsOnFractions", "containsAllHalves", "containsSomeHalves")


def vname(kind, neg):
    return ("not-" if neg else "") + kind


def profile(cases):
    out = ["#%Validation Profile 1.0", "profile: atoms", "prefixes:", "  ex: " + EX, "violation:"]
    for c in cases:
        out.append("  - " + vname(c["kind"], c["neg"]))
    out.append("validations:")
    for c in cases:
        prop, text = ATOM_SPECS[c["kind"]]
        out += ["  %s:" % vname(c["kind"], c["neg"]), "    targetClass: ex.T", "    message: atom"]
        ind = "    "
        if c["neg"]:
            out.append("    not:")
            ind = "      "
        out += [ind + "propertyConstraints:", ind + "  %s:" % prop, ind + "    " + text]
    return "\n".join(out) + "\n"


def bits(s):
    return [v for v in (1, 2, 3, 4) if s[v - 1] == "1"]


def data(rnd):
    nodes = []
    for a in range(16):
        for b in range(16):
            sa, sb = format(a, "04b"), format(b, "04b")
            n = {"@id": "http://example.org/n/s%st%s" % (sa, sb), "@type": [EX + "T"]}
            S, T = bits(sa), bits(sb)
            rnd.shuffle(S)
            rnd.shuffle(T)
            if S:
                n[EX + "num"] = S if len(S) > 1 or rnd.random() < .5 else S[0]
                n[EX + "str"] = ["a" * v for v in S]
                n[EX + "half"] = [v + 0.5 for v in S]
                n[EX + "frac"] = [v + 0.7 for v in S]
                n[EX + "fine"] = [v + 0.00000005 for v in S]
            if T:
                n[EX + "num2"] = T
            nodes.append(n)
    # decoys: not instances of the target class, never to be reported
    nodes.append({"@id": "http://example.org/n/decoy", "@type": [EX + "Other"], EX + "num": [1, 4], EX + "str": ["a", "aaaa"], EX + "num2": [1]})
    rnd.shuffle(nodes)
    return json.dumps(nodes)


def run(V, rnd):
    r = vlib.run_tlc("atoms", "AtomCases", CFG, workers=2, timeout=300)
    vlib.tlc_must_pass(r, "Atoms (documented meaning of atomic constraints, negated twins)")
    cases = vlib.cases_from_prints(r)
    if len(cases) != 2 * len(ATOM_SPECS):
        raise vlib.Infra("AtomCases produced %d cases, expected %d" % (len(cases), 2 * len(ATOM_SPECS)))
    cases.sort(key=lambda c: (c["kind"], c["neg"]))
    prof, doc = profile(cases), data(rnd)
    rows = [{"id": "atoms-validate", "op": "validate", "profile": prof, "data": doc},
            {"id": "atoms-compiled", "op": "validateCompiled", "profile": prof, "data": doc}]
    obs = vlib.run_harness("libout", rows, "c01_atoms", shards=2)
    judged = informational = differ_info = 0
    for o in obs:
        if o.get("err"):
            if o["id"] == "atoms-compiled" and "unknown op" in o["err"]:
                continue
            raise vlib.Infra("the atoms profile does not validate: %s" % o["err"][:400])
        rep = json.loads(o["out"])
        results = rep[0]["doc:encodes"][0].get("result", []) if isinstance(rep, list) else []
        got = {}
        for res in results:
            name, focus = res.get("sourceShapeName"), res.get("focusNode", {})
            focus = focus.get("@id") if isinstance(focus, dict) else focus
            got.setdefault(name, set()).add(focus.rsplit("/", 1)[-1])
        for c in cases:
            name = vname(c["kind"], c["neg"])
            seen = got.get(name, set())
            if "decoy" in seen:
                V.disagree("atom %s reports a node that is not an instance of the target class" % name, {"validation": name})
            want, jd = set(c["reported"]), set(c["judged"])
            for cell in sorted((seen ^ want) - {"decoy"}):
                if cell in jd:
                    S, T = bits(cell[1:5]), bits(cell[6:10])
                    how = "reported although it holds" if cell in seen else "not reported although it fails"
                    if c["kind"] in NON_INTEGER:
                        key = "atom %s (%s) on non-integer numbers: %s" % (name, ATOM_SPECS[c["kind"]][1], how)
                    else:
                        key = "atom %s on a property with %d value(s)%s: %s" % (
                            name, len(S), (" against %d" % len(T)) if "Property" in c["kind"] else "", how)
                    V.disagree(key,
                        {"validation": name, "values": S, "other_values": T, "entry": o["id"],
                         "profile": profile([c]), "expected_reported": cell in want})
                else:
                    differ_info += 1
            judged += len(jd)
            informational += 256 - len(jd)
    return {"atom_cases": len(cases), "atom_cells_judged": judged, "atom_cells_informational": informational,
            "atom_informational_cells_differing_from_transcription": differ_info, "tlc": r}
