"""C16 - a property path is accepted only if the whole string is a path."""
import json
import os
import time

import vlib

FULL = ["L", ".", "/", "B", "|", "(", ")", "^", "*", " ", "T", ",", "Q", "#"]
REDUCED = ["L", ".", "/", "|", "(", ")", "^", " ", "T"]

CFG = """INIT Init
NEXT Next
CONSTANTS
  Mode = "%(mode)s"
  MaxLen = %(maxlen)d
  Alphabet = {%(alpha)s}
  Part = %%(part)d
  NParts = %%(nparts)d
INVARIANTS %(invs)s
"""


def cfg(mode, maxlen, alpha, invs="RecogniserFacts Emit"):
    return CFG % dict(mode=mode, maxlen=maxlen, alpha=", ".join('"%s"' % a for a in alpha), invs=invs)


def enumerate_scope(name, mode, maxlen, alpha, nparts, env=None, timeout=3000):
    if env:
        rs = [vlib.run_tlc(name, "PathsCases", cfg(mode, maxlen, alpha) % {"part": 0, "nparts": 1}, workers=2,
                           timeout=timeout, env=env)]
    else:
        rs = vlib.run_tlc_parts(name, "PathsCases", cfg(mode, maxlen, alpha), nparts, timeout=timeout)
    cases = []
    for r in rs:
        vlib.tlc_must_pass(r, "Paths recogniser facts (%s)" % name)
        cases.extend(vlib.cases_from_prints(r))
    return cases, sum(r.generated for r in rs), sum(r.distinct for r in rs), rs[0].cmd


LETTERS = "abcxyzABZ019-"


def concretize(symbols, rnd, e2e=False):
    """symbol string -> (text, offsets) ; offsets[i] = (start, end) of symbol i+1 in text"""
    out = []
    offs = []
    pos = 0
    for c in symbols:
        if c == "L":
            t = rnd.choice(LETTERS if e2e else LETTERS + "_")
        elif c == " ":
            t = rnd.choice([" ", " ", "  ", "\t", "\n", " \r\n"])
        elif c == "T":
            t = "@type"
        elif c == "Q":
            t = '"'
        elif c == "#":
            t = rnd.choice(["#", "%", ":", ";", "!", "=", "+", "é", "~", "[", "$"])
        elif c == "B":
            t = "\\"
        else:
            t = c
        out.append(t)
        offs.append((pos, pos + len(t)))
        pos += len(t)
    return "".join(out), offs


FACETS = ["lessThanProperty", "lessThanOrEqualsToProperty", "equalsToProperty", "disjointWithProperty"]


WHERE = ["", "andFirst", "andSecond", "orFirst", "orSecond", "not", "nested", "atLeast", "then"]
OTHER_SPACES = ["\u00a0", "\u2003", "\u3000", "\u2028", "\ufeff", "\x0b", "\x0c"]


def fixed_concretize(symbols, other=None):
    """every L -> 'a'; `other`: what a character outside the grammar's alphabet ('#') is written as"""
    out, offs, pos = [], [], 0
    for c in symbols:
        t = {"L": "a", " ": " ", "T": "@type", "Q": '"', "#": other or "#", "B": "\\"}.get(c, c)
        out.append(t)
        offs.append((pos, pos + len(t)))
        pos += len(t)
    return "".join(out), offs


def expected_ast(ast, text, offs):
    k = ast["k"]
    if k == "prop":
        return {"k": "prop", "iri": text[offs[ast["from"] - 1][0]:offs[ast["to"] - 1][1]], "inv": ast["inv"], "trans": ast["trans"]}
    if k == "type":
        return {"k": "type"}
    return {"k": k, "xs": [expected_ast(x, text, offs) for x in ast["xs"]]}


def observed_ast(a):
    if a is None:
        return None
    k = a["k"]
    if k == "prop":
        return {"k": "prop", "iri": a.get("iri", ""), "inv": a.get("inv", False), "trans": a.get("trans", False)}
    if k == "type":
        return {"k": "type"}
    return {"k": k, "xs": [observed_ast(x) for x in a.get("xs", [])]}


def strip_trans(a):
    """transitive paths are parsed but documented as unimplemented: the * flag itself is not compared"""
    if a is None:
        return None
    if a["k"] == "prop":
        b = dict(a)
        b["trans"] = False
        return b
    if a["k"] == "type":
        return a
    return {"k": a["k"], "xs": [strip_trans(x) for x in a["xs"]]}


def leftover_class(symbols):
    """canonical class of a string wrongly accepted: the shape of what follows its longest valid prefix"""
    return "".join("s" if c == " " else c for c in symbols)[-6:]


def gen_sentence(rnd, depth):
    """random sentence of the grammar as a symbol list, with random spacing and redundant parentheses"""
    def ws():
        return [" "] * rnd.choice([0, 0, 1, 1, 2])

    def leaf():
        r = rnd.random()
        if r < 0.12:
            return ["T"]
        s = ["L"] * rnd.choice([1, 2]) + ["."] + ["L"] * rnd.choice([1, 2, 3])
        if rnd.random() < 0.2:
            s += [".", "L"]
        if rnd.random() < 0.35:
            s += ws() + ["^"]
        return s

    def expr(d, top=False):
        n = rnd.choice([1, 1, 2, 3]) if d > 0 else 1
        parts = [term(d) for _ in range(n)]
        out = parts[0]
        for p in parts[1:]:
            sep = ws()
            out = out + (sep if sep else [" "]) + ["/"] + ws() + p   # a space before "/" keeps the documented and literal readings equal
        return out

    def term(d):
        n = rnd.choice([1, 1, 2, 3]) if d > 0 else 1
        parts = [factor(d) for _ in range(n)]
        out = parts[0]
        for p in parts[1:]:
            out = out + ws() + ["|"] + ws() + p
        return out

    def factor(d):
        if d > 0 and rnd.random() < 0.4:
            return ["("] + ws() + expr(d - 1) + ws() + [")"]
        return leaf()

    return expr(depth, True)


def mutate(symbols, rnd):
    s = list(symbols)
    op = rnd.randrange(3)
    alpha = REDUCED + ["*", "#"]
    if op == 0 and len(s) > 1:
        del s[rnd.randrange(len(s))]
    elif op == 1:
        s.insert(rnd.randrange(len(s) + 1), rnd.choice(alpha))
    else:
        s[rnd.randrange(len(s))] = rnd.choice(alpha)
    return s


def run(tier):
    t0 = time.time()
    V = vlib.Verdict("C16")
    rnd = vlib.rng(16)
    quick = tier == "quick"
    scopes = []
    if quick:
        scopes.append(("strings_full3", enumerate_scope("pc_full", "strings", 3, FULL, 4)))
        scopes.append(("strings_red5", enumerate_scope("pc_red", "strings", 5, REDUCED, 16)))
        scopes.append(("tokens5", enumerate_scope("pc_tok", "tokens", 5, REDUCED, 16)))
    else:
        scopes.append(("strings_full5", enumerate_scope("pc_full", "strings", 5, FULL, 16)))
        scopes.append(("strings_red6", enumerate_scope("pc_red", "strings", 6, REDUCED, 16)))
        scopes.append(("tokens6", enumerate_scope("pc_tok", "tokens", 6, REDUCED, 16)))
    # (B) random sentences and all of their single-edit mutations, judged by the TLC recogniser (file mode)
    nsent = 150 if quick else 4000
    seen = set()
    flist = []
    for _ in range(nsent):
        s = gen_sentence(rnd, rnd.choice([1, 2, 2, 3]))
        if len(s) > 40:
            continue
        lookalikes = []
        sp = [k for k, c in enumerate(s) if c == " "]
        for k in rnd.sample(sp, min(2, len(sp))):
            lookalikes.append(s[:k] + ["#"] + s[k + 1:])        # a character that only looks like white space
        lookalikes += [["#"] + s, s + ["#"]]
        for cand in [s] + [mutate(s, rnd) for _ in range(8)] + lookalikes:
            if cand and cand[0] != " " and cand[-1] != " " and tuple(cand) not in seen:
                seen.add(tuple(cand))
                flist.append({"s": cand})
    d = os.path.join(vlib.BUILD, "traces")
    os.makedirs(d, exist_ok=True)
    fpath = os.path.join(d, "c16_in.ndjson")
    chunks = [flist[i::8] for i in range(8)]
    fcases = []
    fgen = fdist = 0
    from concurrent.futures import ThreadPoolExecutor

    def one(i):
        p = fpath + ".%d" % i
        vlib.write_ndjson(p, chunks[i])
        return enumerate_scope("pc_file%d" % i, "file", 1, REDUCED, 1, env={"PATHS_IN": p})
    with ThreadPoolExecutor(max_workers=8) as ex:
        for cs, g, dd, _ in ex.map(one, range(8)):
            fcases.extend(cs)
            fgen += g
            fdist += dd
    scopes.append(("sentences+mutations", (fcases, fgen, fdist, "")))
    # negative control: without the end-of-input assertion the recogniser accepts non-sentences
    neg = vlib.run_tlc("pc_neg", "PathsCases", cfg("strings", 3, REDUCED, "EofIrrelevant") % {"part": 0, "nparts": 1},
                       workers=4, timeout=300)
    if neg.violated != "EofIrrelevant":
        raise vlib.Infra("negative control: EofIrrelevant should be refuted, got %s %s" % (neg.violated, neg.error))
    # ---- replay
    rows = []
    meta = {}
    informational = 0
    total = 0
    for sname, (cases, _, _, _) in scopes:
        for c in cases:
            total += 1
            if not c["agree"]:
                informational += 1
                continue
            n = len(rows)
            e2e = (n % (25 if quick else 50) == 0) and "*" not in c["s"] and "B" not in c["s"]
            text, offs = concretize(c["s"], rnd, e2e=e2e)
            cid = "%s/%d" % (sname, n)
            row = {"id": cid, "s": text, "e2e": e2e}
            if e2e:
                row["where"] = WHERE[(n // (25 if quick else 50)) % len(WHERE)]
            if e2e and (n // (25 if quick else 50)) % 2 == 1:
                # every second end-to-end case: the string is the argument of a property-comparison facet
                row["arg"] = FACETS[(n // 50) % len(FACETS)]
            rows.append(row)
            meta[cid] = (c, text, offs)
    # history pass: the same strings with ONE fixed letter, all sentences first and the non-sentences after them in the
    # same processes -- an answer must not depend on what was parsed before (e.g. through a cache keyed by a normal form)
    hist_rows = []
    hsrc = [(sname, c) for sname, (cases, _, _, _) in scopes for c in cases if c["agree"]]
    hsrc.sort(key=lambda t: (not t[1]["ok"], len(t[1]["s"])))
    if quick:
        acc = [t for t in hsrc if t[1]["ok"]]
        rej = [t for t in hsrc if not t[1]["ok"]]
        rnd.shuffle(rej)
        hsrc = acc + rej[:12000]
    for n, (sname, c) in enumerate(hsrc):
        text, offs = fixed_concretize(c["s"])
        cid = "hist/%d" % n
        hist_rows.append({"id": cid, "s": text, "e2e": False})
        meta[cid] = (c, text, offs)
    # the same idea end to end (CompileProfile, path as key or as facet argument), with characters that look like
    # white space but are not the grammar's: sentences first, then strings that differ from a sentence only by such a character
    sent = [c for _, c in hsrc if c["ok"] and " " in c["s"] and "*" not in c["s"] and "B" not in c["s"]]
    def collapsed(sym):
        out = []
        for c in sym:
            c = " " if c == "#" else c
            if c == " " and (not out or out[-1] == " "):
                continue
            out.append(c)
        while out and out[-1] == " ":
            out.pop()
        return tuple(out)
    sent_keys = set(collapsed(c["s"]) for c in sent)
    near = [c for _, c in hsrc if not c["ok"] and "#" in c["s"] and "*" not in c["s"] and "B" not in c["s"]]
    # first the strings that become a sentence when the odd character is read as a blank, then the others
    near.sort(key=lambda c: collapsed(c["s"]) not in sent_keys)
    twins = [c for c in near if collapsed(c["s"]) in sent_keys]
    sent = [c for c in sent if collapsed(c["s"]) in set(collapsed(t["s"]) for t in twins)] + sent
    near = twins + [c for c in near if collapsed(c["s"]) not in sent_keys][:100]
    e2e_hist = []
    for n, c in enumerate(sent[:120] + near[:(300 if quick else 3000)]):
        text, offs = fixed_concretize(c["s"], OTHER_SPACES[n % len(OTHER_SPACES)])
        cid = "hist-e2e/%d" % n
        row = {"id": cid, "s": text, "e2e": True, "where": WHERE[n % len(WHERE)]}
        if n % 3 == 2:
            row["arg"] = FACETS[n % len(FACETS)]
        e2e_hist.append(row)
        meta[cid] = (c, text, offs)
    obs = vlib.run_harness("paths", rows, "c16", timeout=3000)
    obs += vlib.run_harness("paths", hist_rows, "c16_hist", shards=4, timeout=3000)
    obs += vlib.run_harness("paths", e2e_hist, "c16_hist_e2e", shards=4, timeout=3000)
    rows = rows + hist_rows + e2e_hist
    naccept = 0
    e2e_n = 0
    for o in obs:
        c, text, offs = meta[o["id"]]
        accepted = bool(o["ok"])
        detail = {"string": text, "symbols": c["s"], "spec_accepts": c["ok"], "code_accepts": accepted,
                  "code_error": o.get("err") or o.get("panic")}
        if c["ok"]:
            naccept += 1
        if accepted != c["ok"]:
            if accepted:
                V.disagree("accepted although not a sentence: ...%s" % leftover_class(c["s"]), detail)
            else:
                V.disagree("sentence rejected: %s" % leftover_class(c["s"]), detail)
            continue
        if accepted:
            want = strip_trans(expected_ast(c["ast"], text, offs))
            got = strip_trans(observed_ast(o.get("ast")))
            if want != got:
                detail.update({"expected_ast": want, "observed_ast": got})
                V.disagree("wrong structure for %s" % leftover_class(c["s"]), detail)
                continue
        if o.get("e2e"):
            e2e_n += 1
            want_e2e = "compiled" if c["ok"] else "error"
            if o["e2e"] != want_e2e:
                detail.update({"e2e": o["e2e"], "e2eError": o.get("e2eError")})
                V.disagree("CompileProfile %s for a %s: ...%s" % (o["e2e"], "sentence" if c["ok"] else "non-sentence",
                                                                  leftover_class(c["s"])), detail)
    rc = V.finish()
    vlib.write_evidence("C16", tier, {
        "states": sum(s[1][2] for s in scopes), "transitions": sum(s[1][1] for s in scopes),
        "traces_validated_against_impl": len(rows),
        "evaluations": len(rows), "distinct_nontrivial": naccept,
        "rule": "every symbol string of the scopes %s enumerated by TLC (recogniser = PEG of the committed grammar + end of "
                "input, evaluated in two readings; RecogniserFacts checked on each), plus %d random sentences with spacing/"
                "parenthesis variants and single-edit mutations judged by the same TLC recogniser; each string where both "
                "readings agree is concretised and parsed by the real ParsePath (accept/reject and normalised tree compared), "
                "1:%d also end-to-end through CompileProfile; non-trivial = sentences (accepted strings)"
                % ([(s[0], len(s[1][0])) for s in scopes], nsent, 25 if quick else 50),
        "exhaustive": True,
        "informational_disagreeing_readings": informational, "strings_total": total, "e2e_compiles": e2e_n,
        "samples": [{"string": meta[r["id"]][1], "spec_accepts": meta[r["id"]][0]["ok"]} for r in rows[:: max(1, len(rows) // 8)]][:8],
        "checker_cmd": scopes[0][1][3], "negative_control": "EofIrrelevant -> violated (prefix acceptance differs from whole-string acceptance)",
        "known_findings_hit": sorted(V.known_hits),
    }, time.time() - t0, violations=len(V.violations),
        assumptions=["strings with leading/trailing white space and strings on which the committed and the documented "
                     "reading of the grammar differ are not test cases", "the * flag is parsed but not compared"])
    return rc


def replay(path):
    doc = json.load(open(path))
    c = doc["case"]
    obs = vlib.run_harness("paths", [{"id": "r", "s": c["string"], "e2e": True}], "replay_c16", shards=1)
    print(json.dumps(obs[0], indent=1))
    if bool(obs[0]["ok"]) != c["spec_accepts"]:
        print("VIOLATION property=C16 replay=%s" % path)
        return 1
    return 0
