"""C10 - concurrent validations do not interfere."""
import glob
import json
import os
import re
import shutil
import time

import corpus
import c09
import proto
import vlib

PROFILES = {"pOk": corpus.OK_PROFILE, "pOk2": corpus.OK_PROFILE_NESTED, "pRego": corpus.REGO_ERROR_PROFILES[0]}
PCLASS = {"pOk": "ok", "pOk2": "ok", "pRego": "regoError"}
DOCS = {"dOk": c09.DOCS["fail3"], "dOk2": c09.DOCS["failNested"], "dNotJson": c09.DOCS["notJsonLong"], "dPass": c09.DOCS["pass"],
        # documents that fail at the same stage for different reasons (dense schedule only)
        "dNotJson2": '[{"@id": "http://example.org/n1", "http://example.org/ns#p": tru', "dLd1": '{"@context": 5, "@id": "http://example.org/n1"}',
        "dLd2": '{"@id": 5}', "dLd3": '{"@context": {"a": 5}, "a": 1}'}
DCLASS = {"dOk": "ok", "dOk2": "ok", "dNotJson": "notJson", "dPass": "ok", "dNotJson2": "notJson", "dLd1": "ldReject", "dLd2": "ldReject",
          "dLd3": "ldReject"}


def schedules(n, seed_):
    cfg = open(os.path.join(vlib.SPEC, "cfg", "ACVSched.cfg")).read()
    r = vlib.run_tlc("ACVSched", "MCACVSched", cfg, workers=1, timeout=300, simulate="num=%d" % n, depth=400, seed_=seed_)
    cs = vlib.cases_from_prints(r)
    if len(cs) < n:
        raise vlib.Infra("TLC simulation produced %d schedules, wanted %d\n%s" % (len(cs), n, r.out[-1500:]))
    return cs[:n], r


def race_reports(logdir):
    """Parse Go race detector logs -> list of (key, text)."""
    out = []
    for f in glob.glob(os.path.join(logdir, "race.*")):
        txt = open(f, errors="replace").read()
        for block in txt.split("=================="):
            if "WARNING: DATA RACE" not in block:
                continue
            sites = []
            for m in re.finditer(r"(?:Read|Write|Previous read|Previous write|Previous atomic \w+|Atomic \w+) at \S+ by [^\n]*\n  (\S+?)\(.*?\)\n\s+(\S+?):(\d+)", block):
                fn, path = m.group(1), m.group(2)
                sites.append(fn.split("amf-custom-validator/")[-1] if "amf-custom-validator" in fn else fn.split("/")[-1])
            key = "data race: " + (" vs ".join(sorted(set(sites))) or "unknown site")
            out.append((key, block.strip()[:3000]))
    return out


def run(tier):
    try:
        return run_(tier)
    except vlib.Blocked as e:
        V = vlib.Verdict("C10")
        V.disagree("entry points block after earlier calls failed in the same process", {"harness_report": str(e),
                   "history": "the warm-up calls of harness/cmd/acvh/warmup.go (among them more failed evaluations than processors)"})
        vlib.write_evidence("C10", tier, {"states": 1, "transitions": 1, "traces_validated_against_impl": 0,
                                          "samples": [str(e)], "evaluations": 1, "distinct_nontrivial": 0}, 0.0, violations=1)
        return V.finish()


def run_(tier):
    t0 = time.time()
    V = vlib.Verdict("C10")
    mc = proto.model_check("ACV_concurrent", "ACV concurrent model (2 procs, every interleaving of the stage actions)")
    neg = proto.negative_control("SplitGenvar", ["NamesDistinctPerCompilation", "NamesGloballyDistinct"])
    neg2 = proto.negative_control("LockAcrossDispatch", "StepsNeverWaitForOthers")
    nsched = 4 if tier == "quick" else 160
    rounds = 2 if tier == "quick" else 6
    scheds, sim = schedules(nsched, vlib.seed())
    cases = []
    for i, s in enumerate(scheds):
        procs = sorted(set(x["proc"] for x in s))
        gor = []
        for p in procs:
            calls = []
            for x in s:
                if x["proc"] != p:
                    continue
                if x["entry"] == "validateCompiled":
                    calls.append({"entry": "validateCompiled", "pkey": x["prof"], "dkey": x["doc"],
                                  "shared": 0 if x["prof"] == "pOk" else 1, "cfg": ["default", "alt"][len(calls) % 2]})
                else:
                    calls.append({"entry": x["entry"], "pkey": x["prof"], "dkey": "" if x["entry"] == "compile" else x["doc"],
                                  "cfg": ["alt", "default"][(len(calls) + len(gor)) % 2]})
            gor.append(calls)
        mult = [1, 1, 4][i % 3] if tier == "thorough" else [1, 4][i % 2]
        cases.append({"id": "c10-%03d" % i, "profiles": PROFILES, "docs": DOCS, "dclasses": DCLASS, "pclasses": PCLASS,
                      "sharedProfiles": ["pOk", "pOk2"], "goroutines": gor * mult, "probes": ["dOk", "dPass", "dOk2"],
                      "rounds": rounds, "yield": i % 2 == 0})
    # one dense schedule in every run, whatever the simulated ones look like: every goroutine validates non-conforming
    # documents through all three entry points, neighbours under different report configurations, all released together
    dense = []
    for g in range(8):
        c1, c2 = (["default", "alt"] if g % 2 == 0 else ["alt", "default"])
        dense.append([{"entry": "validate", "pkey": "pOk", "dkey": "dOk", "cfg": c1},
                      {"entry": "validateCompiled", "pkey": "pOk", "dkey": "dOk2", "shared": 0, "cfg": c2},
                      {"entry": "validate", "pkey": "pOk2", "dkey": "dOk2", "cfg": c1},
                      {"entry": "compile", "pkey": "pOk2", "dkey": "", "cfg": c2},
                      {"entry": "validateCompiled", "pkey": "pOk2", "dkey": "dOk", "shared": 1, "cfg": c1},
                      # failures at the same stage for different reasons, side by side: each caller gets ITS error
                      {"entry": "validate", "pkey": "pOk", "dkey": ["dNotJson", "dNotJson2", "dLd1", "dLd2", "dLd3"][g % 5], "cfg": c1},
                      {"entry": "validateCompiled", "pkey": "pOk", "dkey": ["dLd2", "dLd3", "dNotJson2", "dLd1", "dNotJson"][g % 5], "shared": 0, "cfg": c2}])
    cases.append({"id": "c10-dense", "profiles": PROFILES, "docs": DOCS, "dclasses": DCLASS, "pclasses": PCLASS,
                  "sharedProfiles": ["pOk", "pOk2"], "goroutines": dense, "probes": ["dOk", "dPass", "dOk2"],
                  "rounds": rounds + 2, "yield": True})
    logdir = os.path.join(vlib.BUILD, "race")
    shutil.rmtree(logdir, ignore_errors=True)
    os.makedirs(logdir)
    try:
        obs = vlib.run_harness("concurrent", cases, "c10", race=True, shards=min(len(cases), 8), timeout=3000,
                               env={"GORACE": "exitcode=0 halt_on_error=0 log_path=%s/race" % logdir})
    except vlib.Blocked:
        raise
    except vlib.Infra as e:
        if "fatal error: concurrent map" not in str(e) or "amf-custom-validator/" not in str(e):
            raise
        V.disagree("the validator crashes when calls run concurrently (concurrent map access)", {"harness_stderr": str(e)[-3000:]})
        for key, txt in race_reports(logdir):
            V.disagree(key, {"race_report": txt})
        vlib.write_evidence("C10", tier, {"states": mc.distinct, "transitions": mc.generated, "traces_validated_against_impl": 0,
                                          "evaluations": len(cases), "distinct_nontrivial": 0, "samples": [str(e)[-500:]]},
                            time.time() - t0, violations=len(V.violations))
        return V.finish()
    for o in obs:
        if o.get("skipped"):
            raise vlib.Infra("concurrent case skipped: %s" % o["skipped"])
    races = race_reports(logdir)
    # (S) resting calls: call A's listener stops listening after k events, for every k; while A rests in that dispatch,
    # call B is made from another goroutine and must return what it returns alone (documents below and above 1 MiB)
    pad = " " * (1200 * 1024)
    small = c09.DOCS["fail3"]
    big = small.rstrip()[:-1] + pad + small.rstrip()[-1]
    scases = [{"id": "stall-%s-%s" % (a, b), "profile": corpus.OK_PROFILE, "docA": {"small": small, "big": big}[a],
               "docB": {"small": small, "big": big}[b]}
              for a, b in ([("big", "big"), ("small", "big")] if tier == "quick" else
                           [("big", "big"), ("small", "big"), ("big", "small"), ("small", "small")])]
    sobs = vlib.run_harness("stall", scases, "c10_stall", shards=len(scases), timeout=1200)
    npoints = 0
    for o in sobs:
        if o.get("skipped"):
            raise vlib.Infra("stall case skipped: %s" % o["skipped"])
        for pt in o["points"]:
            npoints += 1
            if not pt["bDone"]:
                V.disagree("a call does not return while another call rests in an event dispatch", {"case": o["id"], "point": pt})
            elif not pt["bSame"]:
                V.disagree("a call returns a different result while another call rests in an event dispatch", {"case": o["id"], "point": pt})
            elif not pt["aDone"] or not pt["aSame"]:
                V.disagree("a call that rested in an event dispatch while another call ran returns a different result than alone",
                           {"case": o["id"], "point": pt})
    for key, txt in races:
        V.disagree(key, {"race_report": txt})
    # the text of an error about the DATA (the profile compiles) is part of what a call returns
    for o in obs:
        for c in o["calls"]:
            if c["kind"] == "error" and c.get("pkey") in ("pOk", "pOk2") and c.get("dkey"):
                c["errsha"] = vlib.sha(c.get("err") or "")
    lines, byid = proto.to_trace(obs, "C10")
    rejected, tr = proto.validate_trace("c10", lines, timeout=600)
    bycase = {c["id"]: c for c in cases}
    for rid in sorted(rejected):
        o = byid[rid]
        gv = o.get("genvars") or []
        dup = any(len(set(v)) != len(v) for v in gv)
        V.disagree("interference: %s" % ("one compilation was handed the same generated identifier twice" if dup
                                         else "a concurrent call returned a different result than alone"),
                   {"case": {k: bycase[rid][k] for k in ("goroutines", "rounds", "yield")},
                    "observed": [(x["entry"], x.get("pkey"), x.get("dkey"), x["kind"], x.get("sha", "")) for x in o["calls"]][:80]})
    rc = V.finish()
    ncalls = sum(len(o["calls"]) for o in obs)
    vlib.write_evidence("C10", tier, {
        "states": mc.distinct + tr.distinct + sim.generated, "transitions": mc.generated + tr.generated + sim.generated,
        "traces_validated_against_impl": len(byid),
        "evaluations": ncalls, "distinct_nontrivial": len(scheds),
        "rule": "call schedules = TLC -simulate behaviours of ACV with 4 procs x 3 calls (which calls overlap, which share a "
                "compiled profile) plus one dense schedule of 8 goroutines x 5 calls on non-conforming documents with "
                "alternating report configurations, executed by a -race build with 4 or 16 goroutines released together, %d rounds; every "
                "call's report hash must equal its solo value (bound in the trace spec), handles compiled under concurrency "
                "are probed on 3 documents, the counter values seen by hook H3 must be a run of the atomic Genvar action; "
                "any Go race-detector report is a violation; plus %d resting points: call A rests in the dispatch of its k-th "
                "event (listener stopped, every k, documents of 0.3 KiB and 1.2 MiB) while call B runs to completion and "
                "both must return their solo values; distinct = distinct schedules" % (rounds, npoints),
        "race_reports": len(races),
        "samples": [{"goroutines": c["goroutines"][:4], "threads": len(c["goroutines"]), "rounds": c["rounds"]} for c in cases[:2]],
        "checker_cmd": tr.cmd, "negative_control": "SplitGenvar -> %s; LockAcrossDispatch -> %s" % (neg.violated, neg2.violated),
        "rejected": len(rejected), "known_findings_hit": sorted(V.known_hits),
    }, time.time() - t0, violations=len(V.violations),
        assumptions=["data-race freedom of Go code is not TLA+-observable: the race detector observes the executions the "
                     "spec's schedules induce; interleavings inside a stage are those the Go scheduler produced"])
    return rc


def replay(path):
    doc = json.load(open(path))
    print(json.dumps(doc, indent=1)[:4000])
    print("re-run `./check C10 --tier quick` to re-execute the schedules under the race detector")
    return run("quick")
