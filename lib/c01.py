"""C01 - reported nodes are exactly the target nodes that fail the constraint formula."""
import json
import time

import vlib

NKINDS = 37
ANY_KINDS = list(range(37)) + [45, 46]      # kinds usable in any polarity (37..44 are positive-polarity only)

CFG = """INIT Init
NEXT Next
CONSTANTS
  NAtoms = %(natoms)d
  Depth = %(depth)d
  Mode = "%(mode)s"
  QDepth = %(qdepth)d
  Part = %%(part)d
  NParts = %%(nparts)d
  AsShippedNegateConditional = %(shipped)s
INVARIANTS %(invs)s
"""


def enumerate_scope(name, natoms, depth, mode, qdepth, nparts, timeout=1500):
    cfg = CFG % dict(natoms=natoms, depth=depth, mode=mode, qdepth=qdepth, shipped="FALSE", invs="Theorem Spelling Emit")
    rs = vlib.run_tlc_parts(name, "LogicCases", cfg, nparts, timeout=timeout)
    cases, world = [], None
    gen = dist = 0
    for r in rs:
        vlib.tlc_must_pass(r, "Logic design theorem (%s)" % name)
        cases.extend(vlib.cases_from_prints(r))
        gen += r.generated
        dist += r.distinct
        for s in r.prints:
            if s.startswith("WORLD "):
                world = json.loads(s[6:])
    if world is None or not cases:
        raise vlib.Infra("LogicCases produced no world/cases for %s" % name)
    nodes = {n["name"]: {"val": n["val"], "kids": {"child": sorted(n["kids"])}} for n in world["nodes"]}
    return cases, {"targets": sorted(world["targets"]), "nodes": nodes}, gen, dist, rs[0].cmd


def negative_control():
    cfg = CFG % dict(natoms=2, depth=2, mode="prop", qdepth=0, shipped="TRUE", invs="Theorem")
    r = vlib.run_tlc("logic_neg", "LogicCases", cfg % {"part": 0, "nparts": 1}, workers=4, timeout=300)
    if r.violated != "Theorem":
        raise vlib.Infra("negative control (as-shipped ConditionalRule.Negate) not refuted: %s %s" % (r.violated, r.error))
    return "AsShippedNegateConditional -> Theorem violated"


def slice_world(world, nslices):
    """Split the targets (with the nodes they reach) into independent documents."""
    ts = world["targets"]
    out = []
    for i in range(nslices):
        sub = ts[i::nslices]
        if not sub:
            continue
        keep = set(sub)
        frontier = list(sub)
        while frontier:
            n = frontier.pop()
            for ks in world["nodes"][n]["kids"].values():
                for k in ks:
                    if k not in keep:
                        keep.add(k)
                        frontier.append(k)
        out.append({"targets": sub, "nodes": {n: world["nodes"][n] for n in sorted(keep)}})
    return out


def key_of(ast):
    """Canonical class of a failing formula: its constructor skeleton with atoms abstracted."""
    k = ast["k"]
    if k == "atom":
        return "a"
    if k == "not":
        return "not(%s)" % key_of(ast["x"])
    if k in ("and", "or"):
        return "%s(%s)" % (k, ",".join(key_of(x) for x in ast["xs"]))
    if k == "ite":
        return "ite(%s,%s)" % (key_of(ast["c"]), key_of(ast["t"]))
    if k == "itee":
        return "itee(%s,%s,%s)" % (key_of(ast["c"]), key_of(ast["t"]), key_of(ast["e"]))
    return "%s%s(%s)" % (ast["q"], "" if ast["q"] == "nested" else ast["n"], key_of(ast["x"]))


def shallow_key(ast, depth=2):
    s = key_of(ast)
    return s if len(s) < 60 else s[:57] + "..."


def gen_formula(rnd, depth, natoms, qdepth):
    r = rnd.random()
    if depth == 0 or r < 0.18:
        return {"k": "atom", "i": rnd.randrange(1, natoms + 1)}
    if r < 0.32:
        return {"k": "not", "x": gen_formula(rnd, depth - 1, natoms, qdepth)}
    if r < 0.5:
        return {"k": rnd.choice(["and", "or"]),
                "xs": [gen_formula(rnd, depth - 1, natoms, qdepth) for _ in range(rnd.choice([2, 2, 3, 4]))]}
    if r < 0.6:
        return {"k": "ite", "c": gen_formula(rnd, depth - 1, natoms, qdepth), "t": gen_formula(rnd, depth - 1, natoms, qdepth)}
    if r < 0.72:
        return {"k": "itee", "c": gen_formula(rnd, depth - 1, natoms, qdepth), "t": gen_formula(rnd, depth - 1, natoms, qdepth),
                "e": gen_formula(rnd, depth - 1, natoms, qdepth)}
    if qdepth > 0:
        q = rnd.choice(["nested", "atLeast", "atMost"])
        return {"k": "q", "q": q, "n": 0 if q == "nested" else rnd.randrange(0, 4), "p": rnd.choice(["child", "other"]),
                "x": gen_formula(rnd, depth - 1, natoms, qdepth - 1)}
    return {"k": rnd.choice(["and", "or"]), "xs": [gen_formula(rnd, depth - 1, natoms, qdepth) for _ in range(2)]}


def nbranches(ast, neg=False):
    """Size of the failure-DNF the translator will emit (generator filter only: keeps OPA compile time bounded)."""
    k = ast["k"]
    if k in ("atom", "q"):
        return 1
    if k == "not":
        return nbranches(ast["x"], not neg)
    if k in ("and", "or"):
        conj = (k == "and") != neg
        if conj:
            return sum(nbranches(x, neg) for x in ast["xs"])
        n = 1
        for x in ast["xs"]:
            n *= nbranches(x, neg)
        return n
    if k == "ite":
        return nbranches({"k": "or", "xs": [{"k": "not", "x": ast["c"]}, ast["t"]]}, neg)
    return nbranches({"k": "and", "xs": [{"k": "or", "xs": [{"k": "not", "x": ast["c"]}, ast["t"]]},
                                         {"k": "or", "xs": [ast["c"], ast["e"]]}]}, neg)


def size(ast):
    k = ast["k"]
    if k == "atom":
        return 1
    if k in ("not", "q"):
        return 1 + size(ast["x"])
    if k in ("and", "or"):
        return 1 + sum(size(x) for x in ast["xs"])
    return 1 + sum(size(ast[x]) for x in ("c", "t", "e") if x in ast)


def inner_ok(ast):
    """every sub-formula under a quantifier also has a bounded DNF"""
    k = ast["k"]
    if k == "atom":
        return True
    if k == "q":
        return nbranches(ast["x"]) <= 12 and inner_ok(ast["x"])
    if k == "not":
        return inner_ok(ast["x"])
    if k in ("and", "or"):
        return all(inner_ok(x) for x in ast["xs"])
    return all(inner_ok(ast[x]) for x in ("c", "t", "e") if x in ast)


def gen_bounded_formula(rnd, depth, natoms, qdepth):
    while True:
        f = gen_formula(rnd, depth, natoms, qdepth)
        if size(f) <= 40 and nbranches(f) <= 24 and inner_ok(f):
            return f


def gen_world(rnd, natoms, nnodes):
    names = ["n%02d" % i for i in range(nnodes)]
    nt = max(2, nnodes // 3)
    nodes = {}
    for n in names:
        kids = {}
        for p in ("child", "other"):
            k = rnd.choice([0, 0, 1, 2, 3, 4])
            kids[p] = sorted(set(rnd.choice(names) for _ in range(k)))
        nodes[n] = {"val": [rnd.random() < 0.5 for _ in range(natoms)], "kids": kids}
    return {"targets": names[:nt], "nodes": nodes}


POS_KINDS = range(37, 45)      # positive-polarity-only kinds of harness/cmd/acvh/logic.go (vacuous / mixed value sets)


def negation_free(ast):
    k = ast["k"]
    if k in ("not", "ite", "itee"):
        return False
    if k == "atom":
        return True
    if k == "q":
        return negation_free(ast["x"])
    return all(negation_free(x) for x in ast["xs"])


def run(tier):
    t0 = time.time()
    V = vlib.Verdict("C01")
    rnd = vlib.rng(1)
    quick = tier == "quick"
    neg = negative_control()
    # ---- (A) exhaustive small scopes: TLC proves the design theorem and emits one test per formula
    scopes = []
    scopes.append(("prop_a3_d1", enumerate_scope("lc_a3d1", 3, 1, "prop", 0, 2), 1, 1))
    scopes.append(("prop_a2_d2", enumerate_scope("lc_a2d2", 2, 2, "prop", 0, 16), 8 if quick else 1, 1))
    scopes.append(("quant_q%d" % (0 if quick else 1), enumerate_scope("lc_quant", 2, 1, "quant", 0 if quick else 1, 16),
                   1 if quick else 1, 4))
    scopes.append(("wide_a3", enumerate_scope("lc_wide", 3, 1, "wide", 0, 16), 20 if quick else 2, 1))
    if not quick:
        scopes.append(("prop_a3_d2", enumerate_scope("lc_a3d2", 3, 2, "prop", 0, 16, timeout=3000), 12, 1))
    states = sum(s[1][3] for s in scopes)
    trans = sum(s[1][2] for s in scopes)
    hcases = []
    expect = {}
    asts = {}
    total_formulas = 0
    for sname, (cases, world, _, _, _), sample, nslices in scopes:
        total_formulas += len(cases)
        cases = sorted(cases, key=lambda c: json.dumps(c["ast"], sort_keys=True))
        rnd.shuffle(cases)
        if sample > 1:
            cases = cases[: max(1, len(cases) // sample)]
        natoms = len(next(iter(world["nodes"].values()))["val"])
        slices = slice_world(world, nslices)
        for b in range(0, len(cases), 10):
            batch = cases[b:b + 10]
            kinds = rnd.sample(ANY_KINDS, natoms)
            fs = []
            for j, c in enumerate(batch):
                fid = "%s_%05d" % (sname, b + j)
                fs.append({"fid": fid, "ast": c["ast"]})
                expect[fid] = set(c["expect"])
                asts[fid] = c["ast"]
            for si, w in enumerate(slices):
                hcases.append({"id": "%s/b%05d/s%d" % (sname, b, si), "world": w, "kinds": kinds, "formulas": fs,
                               "spell": rnd.randrange(4)})
    # the same formulas again with per-value atoms on properties holding no value / several values - only formulas in
    # which no atom is ever negated (no not / if): there an atom's truth is all that matters and it is well defined
    posf = [fid for fid in sorted(expect) if negation_free(asts[fid])]
    rnd.shuffle(posf)
    posf = posf[: (400 if quick else 6000)]
    by_scope = {}
    for fid in posf:
        by_scope.setdefault(fid.rsplit("_", 1)[0], []).append(fid)
    scope_world = {sname: (world, nslices) for sname, (cases, world, _, _, _), sample, nslices in scopes}
    npos = 0
    for sname, fids in sorted(by_scope.items()):
        world, nslices = scope_world[sname]
        natoms = len(next(iter(world["nodes"].values()))["val"])
        slices = slice_world(world, nslices)
        for b in range(0, len(fids), 10):
            kinds = rnd.sample(list(POS_KINDS), natoms)
            fs = []
            for fid in fids[b:b + 10]:
                pf = fid + "+pos"
                fs.append({"fid": pf, "ast": asts[fid]})
                expect[pf] = expect[fid]
                asts[pf] = asts[fid]
                npos += 1
            for si, w in enumerate(slices):
                hcases.append({"id": "%s+pos/b%05d/s%d" % (sname, b, si), "world": w, "kinds": kinds, "formulas": fs,
                               "spell": rnd.randrange(4)})
    obs = vlib.run_harness("logic", hcases, "c01_a", timeout=3000)
    byid = {c["id"]: c for c in hcases}
    compared = 0
    for o in obs:
        c = byid[o["id"]]
        tset = set(c["world"]["targets"])
        for fo in o["formulas"]:
            fid = fo["fid"]
            want = sorted(expect[fid] & tset)
            compared += 1
            for mode in ("validate", "compiled"):
                got = fo[mode]
                if fo.get("err") or got != want or fo.get("alien"):
                    V.disagree("formula shape %s" % shallow_key(asts[fid]),
                               {"formula": asts[fid], "kinds": c["kinds"], "spell": c["spell"], "entry": mode,
                                "expected_reported": want, "observed_reported": got, "error": fo.get("err"),
                                "alien": fo.get("alien"), "world": c["world"] if len(c["world"]["nodes"]) < 40 else
                                {"targets": c["world"]["targets"][:5], "note": "canonical quantified world slice"}})
                    break
    # ---- (B) random deep formulas on random graphs, validated by TLC against Sat
    nb = 40 if quick else 1500
    bcases = []
    for i in range(nb):
        natoms = 4
        world = gen_world(rnd, natoms, rnd.choice([6, 10, 16, 24, 40]))
        fs = [{"fid": "r%05d_%d" % (i, j), "ast": gen_bounded_formula(rnd, rnd.choice([3, 4, 5, 6]), natoms, 3)} for j in range(6)]
        bcases.append({"id": "rand%05d" % i, "world": world, "kinds": rnd.sample(ANY_KINDS, natoms), "formulas": fs,
                       "spell": rnd.randrange(4)})
    # wide validations: 27 and 40 quantified constraints side by side in ONE validation (more than the translator's table
    # of one-letter variable names), each decisive for exactly one target node
    for wi, (width, quants) in enumerate(((27, ["nested"]), (40, ["nested", "atLeast", "atMost"]))):
        paths = ["w%d" % j for j in range(1, width + 1)]
        nodes = {"good": {"val": [True, True, True, True], "kids": {}}, "bad": {"val": [False, True, True, True], "kids": {}}}
        nodes["t0"] = {"val": [True] * 4, "kids": {p: ["good"] for p in paths}}
        for j, p in enumerate(paths):
            nodes["t%d" % (j + 1)] = {"val": [True] * 4, "kids": dict({q: ["good"] for q in paths}, **{p: ["bad"]})}
        xs = []
        for j, p in enumerate(paths):
            q = quants[j % len(quants)]
            inner = {"k": "atom", "i": 1}
            if q == "atMost":       # at most 0 children FAIL the atom  ==  every child satisfies it
                xs.append({"k": "q", "q": "atMost", "n": 0, "p": p, "x": {"k": "not", "x": inner}})
            else:
                xs.append({"k": "q", "q": q, "n": 1 if q == "atLeast" else 0, "p": p, "x": inner})
        world = {"targets": ["t%d" % j for j in range(width + 1)], "nodes": nodes}
        bcases.append({"id": "wide%02d" % wi, "world": world, "kinds": [0, 3, 7, 11], "formulas": [{"fid": "wide%02d_f" % wi, "ast": {"k": "and", "xs": xs}}],
                       "spell": wi})
    bobs = vlib.run_harness("logic", bcases, "c01_b", timeout=3000)
    bby = {c["id"]: c for c in bcases}
    lines = []
    fmeta = {}
    for o in bobs:
        c = bby[o["id"]]
        w = c["world"]
        tw = {"targets": w["targets"], "val": {n: w["nodes"][n]["val"] for n in w["nodes"]},
              "kids": {n: w["nodes"][n]["kids"] for n in w["nodes"]}}
        items = []
        for fo, f in zip(o["formulas"], c["formulas"]):
            for mode in ("validate", "compiled"):
                iid = fo["fid"] + ":" + mode
                fmeta[iid] = (c, f, fo)
                items.append({"fid": iid, "ast": f["ast"],
                              "observed": fo[mode] if not fo.get("err") and not fo.get("alien") else ["<error>"]})
        lines.append({"world": tw, "items": items})
    import os
    tpath = os.path.join(vlib.BUILD, "traces")
    os.makedirs(tpath, exist_ok=True)
    tfile = os.path.join(tpath, "c01.ndjson")
    vlib.write_ndjson(tfile, lines)
    tr = vlib.run_tlc("trace_c01", "LogicTrace", "SPECIFICATION TSpec\nCONSTANT AsShippedNegateConditional = FALSE\n"
                      "POSTCONDITION Report\nCHECK_DEADLOCK FALSE\n", workers=1, timeout=3000, env={"LOGIC_TRACE": tfile})
    rejected = None
    for s in tr.prints:
        if s.startswith("REJECTED "):
            rejected = json.loads(s[9:])
    if rejected is None or tr.error:
        raise vlib.Infra("LogicTrace did not complete: %s\n%s" % (tr.error, tr.out[-2000:]))
    for iid in sorted(rejected):
        c, f, fo = fmeta[iid]
        V.disagree("formula shape %s" % shallow_key(f["ast"]),
                   {"formula": f["ast"], "kinds": c["kinds"], "spell": c["spell"], "entry": iid.split(":")[1],
                    "observed_reported": fo[iid.split(":")[1]], "error": fo.get("err"), "world": c["world"]})
    # binding self-test: a corrupted observation must be rejected by the trace spec
    if lines:
        bad = json.loads(json.dumps(lines[0]))
        it = bad["items"][0]
        t0name = bad["world"]["targets"][0]
        it["observed"] = [x for x in it["observed"] if x != t0name] if t0name in it["observed"] else it["observed"] + [t0name]
        bad["items"] = [it]
        sfile = os.path.join(tpath, "c01_self.ndjson")
        vlib.write_ndjson(sfile, [bad])
        sr = vlib.run_tlc("trace_c01_self", "LogicTrace", "SPECIFICATION TSpec\nCONSTANT AsShippedNegateConditional = FALSE\n"
                          "POSTCONDITION Report\nCHECK_DEADLOCK FALSE\n", workers=1, timeout=300, env={"LOGIC_TRACE": sfile})
        if not any(s.startswith("REJECTED [\"") for s in sr.prints):
            raise vlib.Infra("LogicTrace self-test: corrupted observation was accepted")
    # (C) the documented meaning of every atomic constraint on properties with 0..4 values
    import atoms
    ast = atoms.run(V, rnd)
    atlc = ast.pop("tlc")
    rc = V.finish()
    nontriv = sum(1 for fid in expect if expect[fid])
    vlib.write_evidence("C01", tier, {
        "states": states + tr.distinct + atlc.distinct, "transitions": trans + tr.generated + atlc.generated,
        "atoms": dict(ast, rule="Atoms.tla: 21 atomic constraints x negated / not, each on the 256 nodes carrying every pair of "
                                "value sets over 4 magnitudes (0..4 values per property): reported set enumerated by TLC, compared "
                                "through Validate and CompileProfile+ValidateCompiled; cells where the code's negated twin is "
                                "not the classical complement (several values under `not`) are transcribed and informational"),
        "traces_validated_against_impl": len(fmeta),
        "evaluations": compared * 2 + len(fmeta), "distinct_nontrivial": nontriv,
        "rule": "scopes enumerated exhaustively by TLC as initial states (design theorem + spelling invariants checked on "
                "each): %s; total %d formulas, %d replayed (sampled where stated) in batches of 10 validations, atoms "
                "instantiated with %d documented constraint kinds chosen by seed, through Validate and CompileProfile+"
                "ValidateCompiled; plus %d random formulas of depth<=6/width<=4/quantifier depth<=3 on random graphs of "
                "<=40 nodes validated by TLC (LogicTrace) against Sat; non-trivial = replayed formula whose expected "
                "reported set is non-empty"
                % ([(s[0], len(s[1][0]), "1:%d" % s[2]) for s in scopes], total_formulas, len(expect), NKINDS, len(fmeta) // 2),
        "exhaustive": True,
        "samples": [{"formula": asts[fid], "expected_reported": sorted(expect[fid])[:8]} for fid in sorted(expect)[:: max(1, len(expect) // 5)]][:5],
        "checker_cmd": scopes[1][1][4], "negative_control": neg,
        "known_findings_hit": sorted(V.known_hits),
    }, time.time() - t0, violations=len(V.violations),
        assumptions=["inside formulas, per-value atoms are instantiated on single-valued properties and containsAll/"
                     "containsSome on non-empty value sets (where the constraint's negated twin is its complement); "
                     "multi-valued properties are covered for single atoms by Atoms.tla; uniqueValues is not used as an atom"])
    return rc


def replay(path):
    doc = json.load(open(path))
    c = doc["case"]
    world = c.get("world")
    if not world or "nodes" not in world:
        print("case used the canonical quantified world; re-run ./check C01 --tier quick")
        return run("quick")
    case = {"id": "replay", "world": world, "kinds": c["kinds"], "formulas": [{"fid": "f", "ast": c["formula"]}],
            "spell": c.get("spell", 0)}
    obs = vlib.run_harness("logic", [case], "replay_c01", shards=1)
    print(json.dumps(obs[0], indent=1))
    want = c.get("expected_reported")
    got = obs[0]["formulas"][0]["validate"]
    if want is not None and got != want:
        print("VIOLATION property=C01 replay=%s" % path)
        return 1
    return 0
