"""C05 - verdicts are invariant under JSON-LD re-serialisation of the same graph."""
import json
import os
import shutil
import time

import vlib

CFG = "SPECIFICATION Spec\nINVARIANTS SameDenotation Emit\nPROPERTY IndexStable\n"


def choice_key(c):
    canon = {"ctx": "none", "base": False, "embed": False, "wrapper": "array", "order": False, "keyOrder": False,
             "arrays": True, "typeArr": True, "repeat": False, "litObj": True, "split": False, "kw": "plain"}
    return "+".join(sorted("%s=%s" % (k, str(c[k]).lower()) for k in c if c[k] != canon[k])) or "canonical"


def expected_index(case):
    ids = {}
    for n, props in case["ids"].items():
        ids[n] = {p: sorted(vs) for p, vs in props.items()}
    types = {c: sorted(ns) for c, ns in case["types"].items()}
    return ids, types


def cli_results(stdout):
    """-> (conforms, sorted (severity, validation, focus, message)) of a report printed by the tool, or None"""
    try:
        doc = json.loads(stdout)
        node = doc[0]["doc:encodes"][0]
        res = sorted(set((json.dumps(r.get("resultSeverity"), sort_keys=True), json.dumps(r.get("sourceShapeName")),
                          json.dumps(r.get("focusNode"), sort_keys=True), json.dumps(r.get("resultMessage"))) for r in node.get("result", [])))
        return bool(node.get("conforms")), res
    except Exception:
        return None


def cli_twins(V, rows, oby):
    import subprocess
    acv = vlib.build_cli()
    d = os.path.join(vlib.BUILD, "c05cli")
    shutil.rmtree(d, ignore_errors=True)
    os.makedirs(d)
    n = 0
    for row in rows:
        o = oby[row["id"]]
        if not row.get("keepText") or o.get("err") or not o.get("text") or n >= 60:
            continue
        text = o["text"]
        # the same tokens on one line: line breaks outside strings become blanks, then 70 000 blanks before the last token
        flat = " ".join(text.split("\n")).rstrip()
        flat = flat[:-1] + " " * 70000 + flat[-1]
        pf = os.path.join(d, "profile.yaml")
        open(pf, "w").write(o["profile"])
        outs = []
        for name, t in (("rendered", text), ("one-line", flat)):
            df = os.path.join(d, "%s.%s.jsonld" % (row["id"], name))
            open(df, "w").write(t)
            pr = subprocess.run([acv, "validate", pf, df], capture_output=True, timeout=300)
            outs.append((name, pr.returncode, cli_results(pr.stdout.decode(errors="replace")), pr.stderr[-300:].decode(errors="replace")))
            os.remove(df)
        n += 1
        key = choice_key(row["choice"])
        (_, rc1, r1, e1), (_, rc2, r2, e2) = outs
        if r1 is None and r2 is None:
            continue            # the tool reports nothing for either spelling: nothing for C05 to compare
        if r1 is None or r2 is None:
            V.disagree("acv validate gives a verdict for one spelling of the white space and none for the other",
                       {"case": row, "rendered": [rc1, e1], "one_line": [rc2, e2]})
        elif r1 != r2:
            V.disagree("acv validate: results differ between a document and the same tokens on one long line",
                       {"case": row, "rendered": r1, "one_line": r2})
        elif r1[0] != o["conforms"]:
            V.disagree("acv validate and the library disagree on conforms under [%s]" % key, {"case": row, "cli": r1, "library": o["conforms"]})
    return n


def run(tier):
    t0 = time.time()
    V = vlib.Verdict("C05")
    rnd = vlib.rng(5)
    quick = tier == "quick"
    mc = vlib.run_tlc("reser", "ReserCases", CFG, workers=vlib.NCPU, timeout=1800)
    vlib.tlc_must_pass(mc, "JSON-LD surface model (Denote(Serialise(G, c)) = G for every reachable choice record)")
    cases = vlib.cases_from_prints(mc)
    graphs = None
    for s in mc.prints:
        if s.startswith("GRAPHS "):
            graphs = {g["name"]: g for g in json.loads(s[7:])}
    if not cases or not graphs:
        raise vlib.Infra("no cases from ReserCases")
    for g in graphs.values():
        g["nodes"] = sorted(g["nodes"])
        g["lits"] = sorted(g["lits"])
        g["edges"] = sorted(g["edges"])
        g["types"] = {n: sorted(t) for n, t in g["types"].items()}
    total = len(cases)
    cases = sorted(cases, key=lambda c: json.dumps(c, sort_keys=True))
    canon = [c for c in cases if choice_key(c["choice"]) == "canonical"]
    rest = [c for c in cases if choice_key(c["choice"]) != "canonical"]
    rnd.shuffle(rest)
    if quick:
        # all single-choice rewrites + a sample of the combinations
        single = [c for c in rest if choice_key(c["choice"]).count("+") == 0]
        multi = [c for c in rest if choice_key(c["choice"]).count("+") > 0]
        rest = single + multi[:1400]
    rows = []
    for i, c in enumerate(canon + rest):
        rows.append({"id": "rs%05d" % i, "graph": graphs[c["graph"]], "choice": c["choice"], "ws": rnd.randrange(3)})
        if c["graph"] == "typesTwin" and choice_key(c["choice"]) != "canonical":
            # validated right after the same serialisation of the graph it differs from by one blank inside a string
            rows[-1]["before"] = {"id": "twin", "graph": graphs["types"], "choice": c["choice"], "ws": rows[-1]["ws"]}
    # every 40th serialisation (and the canonical ones) is observed a second time through the command line tool, as
    # rendered and rewritten onto ONE line of more than 64 KiB (white space between tokens is not part of the graph)
    for i, row in enumerate(rows):
        if (i < len(canon) or i % 40 == 7) and row["choice"].get("ctx") != "prefixRef":   # a referenced context is a
            row["keepText"] = True                                                          # file the harness rewrites
    obs = vlib.run_harness("reser", rows, "c05", timeout=3000)
    oby = {o["id"]: o for o in obs}
    base = {}
    for c, row in zip(canon + rest, rows):
        o = oby[row["id"]]
        if choice_key(c["choice"]) == "canonical":
            if o.get("err"):
                raise vlib.Infra("canonical serialisation fails: %s" % o["err"])
            base[c["graph"]] = o
    ndiff = 0
    for c, row in zip(canon + rest, rows):
        o = oby[row["id"]]
        key = choice_key(c["choice"])
        if o.get("err"):
            V.disagree("serialisation [%s] is not processed: %s" % (key, o["err"][:50]), {"case": row, "error": o["err"], "text": o.get("text")})
            continue
        ids, types = expected_index(c)
        got_ids = {n: p for n, p in o["ids"].items()}
        if got_ids != ids or o["types"] != types:
            V.disagree("index differs under [%s]" % key, {"case": row, "expected_ids": ids, "observed_ids": got_ids,
                                                          "expected_types": types, "observed_types": o["types"]})
            continue
        b = base[c["graph"]]
        if o["conforms"] != b["conforms"] or o["results"] != b["results"]:
            V.disagree("results differ under [%s]" % key, {"case": row, "canonical_results": b["results"], "observed_results": o["results"]})
            continue
        if key != "canonical":
            ndiff += 1
    ncli = cli_twins(V, rows, oby)
    rc = V.finish()
    vlib.write_evidence("C05", tier, {
        "states": mc.distinct, "transitions": mc.generated, "traces_validated_against_impl": len(rows),
        "evaluations": len(rows), "distinct_nontrivial": ndiff,
        "rule": "the surface-choice state machine (ReserCases.tla over JsonLd.tla) explored exhaustively by TLC: %d states = 4 "
                "graphs (diamond with shared child, cycle+self loop, several classes, and a twin differing by one blank inside a "
                "literal, validated right after its twin) x 9216 choice records (context none/prefix/@vocab/by reference, "
                "keywords plain/aliased/JSON-escaped, @base, embedded/flat, @graph wrapper, node order, key order, single/array, @type string/array, "
                "repeated value, plain/@value literal, node split over two objects), RoundTrip and IndexStable checked; %d "
                "serialisations rendered (+3 white-space variants) and compared: ProcessInput's @ids/@types vs Graph!IdsIndex/"
                "TypesIndex, conforms and (severity, validation, focus, message) set vs the canonical serialisation; "
                "%d of them also given to `acv validate` as rendered and as one line of more than 64 KiB (same verdict and "
                "result set from both, same verdict as the library); non-trivial = non-canonical serialisation" % (total, len(rows), ncli),
        "exhaustive": not quick,
        "samples": [{"graph": r["graph"]["name"], "choice": choice_key(r["choice"])} for r in rows[:: max(1, len(rows) // 6)]][:6],
        "checker_cmd": mc.cmd, "known_findings_hit": sorted(V.known_hits),
    }, time.time() - t0, violations=len(V.violations),
        assumptions=["blank nodes, @list, @language, typed literals and native numbers vs typed literals are not generated"])
    return rc


def replay(path):
    doc = json.load(open(path))
    row = dict(doc["case"]["case"])
    row["id"] = "replay"
    canon = dict(row)
    canon["id"] = "canon"
    canon["choice"] = {"ctx": "none", "base": False, "embed": False, "wrapper": "array", "order": False, "keyOrder": False,
                       "arrays": True, "typeArr": True, "repeat": False, "litObj": True, "split": False, "kw": "plain"}
    canon.pop("before", None)
    obs = vlib.run_harness("reser", [row, canon], "replay_c05", shards=1)
    oby = {o["id"]: o for o in obs}
    print(json.dumps(oby["replay"], indent=1)[:3000])
    a, b = oby["replay"], oby["canon"]
    if a.get("err") or a["ids"] != b["ids"] or a["types"] != b["types"] or a["results"] != b["results"] or a["conforms"] != b["conforms"]:
        print("VIOLATION property=C05 replay=%s" % path)
        return 1
    return 0
