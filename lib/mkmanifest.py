#!/usr/bin/env python3
"""Regenerates /verif/MANIFEST.json from the table below (one entry per claimed property)."""
import json
import os

HERE = os.path.dirname(os.path.dirname(os.path.abspath(__file__)))

TLC_NOTE = ("Trusted: TLC, the projection/renderer code of harness/cmd/acvh, OPA/json-gold/yaml.v3 as libraries. "
            "Bounded: the spec is checked exhaustively within the stated small constants; the code is bound to it on the "
            "cases/traces actually replayed or recorded in the run (counts in the evidence file).")

CHECKS = {
    "C11": dict(
        text="TLC checks the ACV system model (spec/ACV.tla: 7 stages x 3 entry points x input classes, channel, close) "
             "exhaustively for WellBracketed / ClosedExactlyOnceAtReturn / NoSendAfterClose / EventsMatchOutcome and liveness; "
             "then every abstract behaviour (entry x fault stage x channel mode, enumerated by TLC) is rendered to real "
             "inputs, run through the real entry points, and the recorded event/close/return trace is validated by TLC "
             "against the same actions (spec/trace/ACVTrace.tla).",
        ref="DESIGN.md §6 C11", technique="TLA+ model checking (TLC) + trace validation of real executions"),
    "C04": dict(
        text="TLC checks NoVerdictOnUnreadable on the ACV model for every entry point / class / channel mode (and refutes it "
             "for the named deviation SwallowDecodeError); real texts whose unreadability is established independently of the "
             "code under test (a fresh encoding/json decoder fails, or a direct json-gold Flatten fails) are run through all "
             "validating entry points (also as the first call of a fresh process) and the recorded outcomes are validated by TLC "
             "with the data class logged, so a report for an unreadable text is not a behaviour of the spec.",
        ref="DESIGN.md §6 C04", technique="TLA+ model checking (TLC) + trace validation of real executions"),
    "C17": dict(
        text="TLC checks OutcomeIsReportOrError / NoNodesConforms and liveness EveryCallReturns (weak fairness) on the ACV "
             "model; seeded structured mutations of all fixtures plus raw bytes are run through every public entry point under "
             "recover() and a watchdog, and each recorded outcome must be a behaviour of the model - panic and timeout are not outcomes of any spec "
             "action; a sample of inputs is also run as the first call of a fresh process; profiles that use YAML as a graph language "
             "(anchors, aliases to an enclosing node, merge keys, tags, several documents) are among the inputs, and a crash of the "
             "process inside the validator (stack overflow) counts as a panic. The byte space is explored, not enumerated.",
        ref="DESIGN.md §6 C17", technique="TLA+ model checking (TLC) + trace validation of fuzzed real executions"),
    "C09": dict(
        text="TLC checks HistoryIndependent and HandlesOnlyGrowByCompile on the ACV model (and refutes them when Eval results "
             "alias handle-owned state); TLC enumerates every history of <=3 (quick) / <=5 (thorough) documents over 6-7 "
             "document kinds x 2 profiles; each is run through ONE compiled handle next to fresh ValidateWithConfiguration "
             "calls under a fixed clock, plus long random, revisiting (k documents, again, a newcomer, again) and scripted histories; "
             "the trace spec binds the report hash of each (profile, doc) on first observation and "
             "rejects any later call - fresh or compiled, whatever preceded it - that returns different bytes or a different outcome kind.",
        ref="DESIGN.md §6 C09", technique="TLA+ model checking (TLC) + exhaustive history replay with TLC trace validation"),
    "C10": dict(
        text="TLC explores every interleaving of the stage actions of 2 concurrent calls (1.9M states) for name distinctness and "
             "interleaving independence and refutes them for the split (racy) counter increment; TLC-simulated call schedules "
             "(4 procs x 3 calls) and one dense schedule (8 goroutines x 5 calls, alternating report configurations) are executed by a "
             "-race build with 4/16 goroutines: race-detector reports, per-call report "
             "hashes vs solo values, probes of handles compiled under concurrency and the counter values seen by hook H3 are "
             "validated against the spec's atomic Genvar action. The model also states that no call ever waits for another one "
             "(StepsNeverWaitForOthers: every pending call has an enabled step in every reachable state); it is bound by parking "
             "call A at each of its 14 event dispatches (listener stopped) and running call B to completion, documents below "
             "and above 1 MiB: B and A return their solo values.",
        ref="DESIGN.md §6 C10", technique="TLA+ model checking (TLC) + schedule replay under the Go race detector + trace validation",
        note=TLC_NOTE + " Data-race freedom itself is observed by the Go race detector on the executions the spec's schedules "
             "induce; TLA+ contributes the shared-state discipline, the schedules and the linearisability check of the counter."),
    "C01": dict(
        text="spec/Logic.tla holds the classical semantics Sat (the oracle) and a code-shaped transcription of the translator "
             "(Parse/Negate push-down, failure-DNF Branches, Fires); TLC enumerates every formula of the scopes as an initial "
             "state (depth<=2 over 2 atoms: 15578; depth<=1 over 3 atoms; quantified fragment x 10 contexts on a world holding "
             "every assignment x 81 child multisets; thorough: depth<=2 over 3 atoms, 227k), proves 'some branch fires <=> ~Sat' "
             "and the spelling invariants on each, and emits one implementation test per state; the tests are rendered with "
             "37 documented constraint kinds and run through Validate and CompileProfile+ValidateCompiled, comparing the set "
             "of reported target nodes. Random deep formulas on random graphs are validated by TLC (LogicTrace) against Sat. "
             "spec/Atoms.tla gives the documented meaning of 21 atomic constraints on properties with 0..4 values (and a "
             "transcription of their negated twins); its 42 cases x 256 value-set pairs are replayed the same way.",
        ref="DESIGN.md §6 C01", technique="TLA+ transcription + exhaustive small-scope enumeration (TLC) replayed into the code; TLC trace validation of random cases"),
    "C16": dict(
        text="spec/Paths.tla transcribes the committed PEG (plus end of input) as a deterministic recogniser over a 14-symbol "
             "character-class alphabet, in two readings (committed vs documented); TLC enumerates every symbol string up to "
             "length 5 (full alphabet, thorough) / 6 (operators), every token string (predicates, ^, @type, operators, "
             "parentheses, spaces) up to 6 tokens, and judges random sentences with all spacing/parenthesis variants and "
             "their single-edit mutations; every string on which both readings agree is concretised and given to the real "
             "ParsePath: accept/reject and the normalised tree must match, and a sample goes end-to-end through CompileProfile.",
        ref="DESIGN.md §6 C16", technique="TLA+ transcription of the grammar + exhaustive string enumeration (TLC) replayed into the parser"),
    "C02": dict(
        text="spec/Paths.tla defines the denotation Den (predicate -> objects, / composition, | union, ^ converse, @type classes; "
             "sets) and the generator-shaped unfolding into linear clauses; TLC enumerates every path with <=2 levels of / and | "
             "over p, q, p^, q^, @type (6355 paths) on 4 canonical graphs (diamond, cycle, literal in mid-path, parallel/converse), "
             "proves Den = union of clauses and emits Den per focus node; random deeper paths x random graphs are judged by the "
             "same TLA+ operator - in a third of them one predicate is a custom domain property (apiExt.r in the path, its edges "
             "rendered the way AMF encodes extensions); each case is rendered with random spacing/parentheses and observed on the real validator "
             "through `in` traces (values), the maxCount trace (distinct count) and nested sub-results (nodes); a tenth of the batches "
             "is observed a second time from inside a validation that carries 36 more nested constraints over other paths.",
        ref="DESIGN.md §6 C02", technique="TLA+ denotational spec + exhaustive path enumeration (TLC) replayed into the validator"),
    "C07": dict(
        text="spec/Names.tla models the identifiers the translator invents (letter table, plurals, reserved words of the policy "
             "language and of the preamble) and TLC checks NoReserved/DistinctInScope for up to 60 allocations (refuted for the "
             "shipped table at index 11); spec/ShapeCases.tla enumerates the shape space of well-formed declarative profiles "
             "(25 constraint kinds x 16 path shapes x 8 connective contexts; how a validation is listed; siblings x depth x context x quantifier; number of "
             "validations; hash-sampled remainder), evaluating the naming invariants for the variables each shape needs; every "
             "emitted shape is rendered, compiled with CompileProfile and run once.",
        ref="DESIGN.md §6 C07", technique="TLA+ model of identifier allocation + TLC-enumerated shape space replayed into CompileProfile",
        note=TLC_NOTE + " The accepting oracle is OPA's compiler itself; nesting depth is capped at 8 because OPA's compile time grows ~3.5x per level."),
    "C08": dict(
        text="spec/Sandbox.tla is the capability gate as a state machine (compose -> compile -> accepted|rejected -> evaluate) over "
             "built-ins x embedding positions x call syntaxes; TLC checks that no dangerous capability is ever exercised and that "
             "nothing is evaluated after a rejection (refuted for the deny-list of the pinned tree), and enumerates the full "
             "product (5 dangerous + 2 control built-ins x 18 positions x 10 syntaxes); every composed profile is compiled and "
             "validated for real in a process instrumented to record outbound attempts; controls must compile, dangerous calls "
             "must be rejected with the engine's unsafe-built-in error.",
        ref="DESIGN.md §6 C08", technique="TLA+ state machine of the gate + TLC-enumerated full product replayed into CompileProfile/Validate",
        note=TLC_NOTE + " OPA's compiler is the accepting oracle; the dangerous set is the property's list, checked to exist in the linked engine."),
    "C03": dict(
        text="spec/Report.tla defines the report header and result list the property prescribes from an abstract profile and "
             "report configuration; TLC enumerates all 102400 scenarios (validations a, b and an undefined name over the three "
             "level lists x defined x failing nodes x 8 configurations; quick: 2 of 40 slices), checks conforms iff no Violation "
             "result, warnings/infos never change conforms, configuration locality and result-key iff results on each, and "
             "every scenario is rendered and run through both configured entry points; conforms, result key, (severity, name, "
             "focus) set, profileName, dateCreated and schema IRIs are compared.",
        ref="DESIGN.md §6 C03", technique="TLA+ report model + exhaustive scenario enumeration (TLC) replayed into the validator"),
    "C12": dict(
        text="spec/Report.tla gives the shape grammar of report nodes and the positional @id scheme; TLC proves the scheme "
             "injective on every uniform tree shape (depth<=3, fan-out<=3, with/without locations) and refutes it for a node "
             "kind with two array slots; real reports from profiles built for several traces per result, several sub-results "
             "per trace, nesting depth<=4, three severities and lexical locations are projected to trees and validated by TLC "
             "(ReportTrace.tla): one instance encoding one report node, every typed node has an @id and all @ids of the document "
             "are pairwise distinct, focus nodes are graph node ids, validation names / 'nested', non-empty message and trace, "
             "component and resultPath on every trace; the reports the `acv` binary prints and writes go through the same "
             "trace spec.",
        ref="DESIGN.md §6 C12", technique="TLA+ model of the id scheme (TLC) + TLC trace validation of real reports"),
    "C14": dict(
        text="spec/Graph.tla defines Location(n) from lexical entries and source-file information; TLC enumerates scenarios "
             "(entry mode per node: node-level / property-level only / none; file listing each node; range tuples with "
             "magnitudes 0..123456; no source maps at all) and emits the location every node must get; each is rendered as "
             "AMF-shaped source maps (flat node ids and hierarchical ones, where a child's id extends its parent's) and validated with a profile producing results, traces and nested sub-results about all "
             "nodes; uri and the four numbers are compared, and the report is compared with that of the stripped graph.",
        ref="DESIGN.md §6 C14", technique="TLA+ lexical-index model + TLC-enumerated scenarios replayed into the validator"),
    "C05": dict(
        text="spec/JsonLd.tla models JSON-LD surface syntax (Serialise under an 11-dimension choice record, Denote back to a graph); "
             "spec/ReserCases.tla is the state machine of rewrite actions (toggle one choice) and TLC visits every reachable "
             "choice record for 3 canonical graphs (9216 states) checking Denote(Serialise(G,c)) = G and index stability on every "
             "transition; each visited serialisation is written as real JSON-LD text and compared on two observables: the "
             "@ids/@types index ProcessInput derives (vs Graph!IdsIndex/TypesIndex) and conforms + (severity, validation, focus, "
             "message) set of a profile with count, value, nested, inverse-path, @type and pattern constraints (vs the canonical "
             "serialisation). A sample of the serialisations is also given to `acv validate` as rendered and as one line of more than 64 KiB: same verdict and results from both, same verdict as the library.",
        ref="DESIGN.md §6 C05", technique="TLA+ model of JSON-LD surface forms (TLC, exhaustive) replayed into ProcessInput/Validate"),
    "C15": dict(
        text="spec/Profile.tla separates a profile's spelling from its meaning (Abs forgets orders/styles and resolves compact IRIs "
             "through declared and built-in prefixes); TLC checks that every walk of <=3 rewrite actions preserves Abs (and refutes "
             "it for a rename that forgets the declaration); TLC-simulated walks of 6 rewrites (16 kinds) are applied to real "
             "profile texts through yaml.v3 node manipulation - a purpose-built profile plus the repository's fixtures with their "
             "own data - and conforms and the (severity, validation, focus, message) set are compared with the base.",
        ref="DESIGN.md §6 C15", technique="TLA+ rewrite model (TLC) + simulated rewrite walks replayed on real profiles"),
    "C13": dict(
        text="spec/Text.tla transcribes the chain a profile text goes through (message parsing -> pasting into a Rego string "
             "literal -> Rego unescaping -> sprintf) over an alphabet of 12 character classes + 2 placeholders, next to what the "
             "property prescribes; TLC proves chain = expectation for every string of length <=3 (quick) / <=4 (thorough) and "
             "every subset of placeholder properties present, and refutes it for the escaping of the pinned tree; every string is "
             "concretised and placed as message, profile name, validation name and value of in/containsAll/containsSome; "
             "profileName, sourceShapeName, resultMessage and the verdict are compared.",
        ref="DESIGN.md §6 C13", technique="TLA+ transcription of the escaping chain + exhaustive string enumeration (TLC) replayed into the validator"),
    "C06": dict(
        text="spec/Determinism.tla models why the output is a function of the text: the keys of a mapping are visited in "
             "document order and quantified variables are allocated in visit order (TLC: one terminal state per profile; with "
             "map-order visits two terminal states with different code - the negative control); the binding is TLC trace "
             "validation (DetTrace.tla) of (input, kind, hash) observations of the real code: generated code under "
             "fresh-process conditions and reports under a fixed clock, repeated sequentially, from concurrent goroutines, "
             "from separate harness processes and from `acv generate` in fresh processes - the first observation of an input "
             "binds its hash, every later one must agree.",
        ref="DESIGN.md §6 C06", technique="TLA+ model of visit-order determinism (TLC) + TLC trace validation of repeated/concurrent/cross-process runs",
        note=TLC_NOTE + " Go's map-order and scheduling nondeterminism cannot be forced without rewriting the code; it is sampled "
             "(12-40 repetitions, 3-12 processes, 8-16 goroutines per input), which detects an order dependence over k keys with "
             "probability 1-(1/k!)^(N-1)."),
    "C18": dict(
        text="spec/Cli.tla is the state machine of the output path under the `acv` subcommands: validate (to file / to stdout, 3 "
             "input pairs with reports of different length, failing runs), generate, normalize, compile, help, an unknown "
             "command, wrong argument counts, missing and broken input files, interleaved with external remove / overwrite "
             "(empty, shorter, longer) / litter next to the path / the path being a directory; TLC checks that the file holds "
             "exactly the report after a run (refuted for open-without-truncate), that failures print no report, that a report "
             "reaches stdout only from validate without an output path and that only validate-to-file ever changes the path, and "
             "enumerates every history of 3 steps (quick; thorough: simulated histories of 4); the histories are replayed with "
             "the real binary built from /repo/cmd and file bytes / stdout / exit status compared with the library's output "
             "from a separate process (dateCreated masked); generate and normalize are also compared with the library on "
             "fixture inputs; an unwritable path must fail.",
        ref="DESIGN.md §6 C18", technique="TLA+ state machine of the output file (TLC) + exhaustive history replay with the real binary"),
}

NOT_YET = "no check registered yet for this property in the current state of the framework (design in DESIGN.md §6)"


def main():
    props = [json.loads(l) for l in open(os.path.join(HERE, "properties.jsonl"))]
    m = json.load(open(os.path.join(HERE, "MANIFEST.json")))
    m["checks"] = []
    m["not_applicable"] = []
    for p in props:
        pid = p["id"]
        c = CHECKS.get(pid)
        if not c:
            m["not_applicable"].append({"property_id": pid, "reason": NOT_YET})
            continue
        m["checks"].append({
            "property_id": pid,
            "quick_cmd": "./check %s --tier quick" % pid,
            "thorough_cmd": "./check %s --tier thorough" % pid,
            "evidence_file": "/verif/evidence/%s.json" % pid,
            "replay_cmd_template": "./check %s --replay {path}" % pid,
            "engine": "tlc",
            "level_claimed": {"category": c.get("category", "model_checking"), "text": c["text"], "design_ref": c["ref"]},
            "level_note": c.get("note", TLC_NOTE),
            "technique": c["technique"],
        })
    m["engines"][0]["serves_properties"] = sorted(CHECKS)
    if not m["not_applicable"]:
        m["not_applicable"] = []
    json.dump(m, open(os.path.join(HERE, "MANIFEST.json"), "w"), indent=1)
    print("claimed:", sorted(CHECKS))


if __name__ == "__main__":
    main()
