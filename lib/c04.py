"""C04 - unreadable data yields an error, never a verdict."""
import time

import corpus
import mutate
import proto
import vlib

ENTRIES = ["validate", "validateCfg", "validateCompiled", "validateCompiledCfg", "compileThenValidate"]

EMPTY_LEVELS_PROFILE = """#%Validation Profile 1.0
profile: no levels
validations:
  unused:
    targetClass: doc.Unit
    propertyConstraints:
      doc.encodes:
        minCount: 1
"""


def run(tier):
    t0 = time.time()
    V = vlib.Verdict("C04")
    rnd = vlib.rng(4)
    mc = proto.model_check("ACV_protocol", "ACV protocol model")
    neg = proto.negative_control("SwallowDecodeError", ["WellBracketed", "NoVerdictOnUnreadable", "EventsMatchOutcome"])
    # candidate texts; class membership is decided by the definition (fresh json.Decoder / direct Flatten)
    cands = mutate.unreadable_candidates(rnd, per_fixture=3 if tier == "quick" else 12,
                                         fixtures=8 if tier == "quick" else 60)
    cands = sorted(set(cands))
    cls = vlib.run_harness("classify", [{"id": str(i), "data": d} for i, d in enumerate(cands)], "c04_classify")
    texts = [(cands[int(c["id"])], c["class"]) for c in cls if c["class"] in ("notJson", "ldReject")]
    nclass = {k: sum(1 for _, c in texts if c == k) for k in ("notJson", "ldReject")}
    if min(nclass.values()) < 5:
        raise vlib.Infra("too few unreadable texts generated: %s" % nclass)
    profiles = [corpus.OK_PROFILE, corpus.OK_PROFILE_NESTED, EMPTY_LEVELS_PROFILE]
    fx = corpus.fixture_pairs()
    rnd.shuffle(fx)
    profiles += [p for p, _, _ in fx[: (2 if tier == "quick" else 20)]]
    cases = []
    for n, (d, c) in enumerate(texts):
        ents = ENTRIES if tier == "thorough" else [ENTRIES[n % len(ENTRIES)], ENTRIES[(n + 2) % len(ENTRIES)]]
        for e in ents:
            cases.append({"entry": e, "chan": rnd.choice(["none", "unbuf", "buf"]), "profile": rnd.choice(profiles),
                          "data": d, "pclass": "ok", "dclass": c})
        if n % 3 == 0 or tier == "thorough":
            # the same text again, back to back in the same process (and through another profile): a verdict must
            # not appear on the second attempt either
            cases.append({"entry": ENTRIES[n % 4], "chan": "none", "profile": rnd.choice(profiles), "data": d,
                          "pclass": "ok", "dclass": c, "repeat": 3})
    obs = proto.run_cases("c04", cases)
    # the same question for the FIRST call a process ever makes (no warm-up history, nothing cached, no earlier
    # document): one process per text, the shortest texts (empty, blank, a lone bracket) and a sample of the rest
    short = sorted([t for t in texts if len(t[0]) <= 2], key=lambda t: t[0])
    rest = [t for t in texts if len(t[0]) > 2]
    rnd.shuffle(rest)
    first = []
    for j, (d, c) in enumerate(short[:8] + rest[: (8 if tier == "quick" else 40)]):
        first.append({"id": "c04-first-%03d" % j, "entry": ENTRIES[j % len(ENTRIES)], "chan": "none", "profile": profiles[j % 3],
                      "data": d, "pclass": "ok", "dclass": c, "debug": False})
    obs += vlib.run_harness("proto", first, "c04_first", shards=len(first), env={"ACVH_NO_WARMUP": "1"})
    cases += first
    skipped = [o for o in obs if o.get("skipped") and "poisoned" not in o["skipped"]]
    if len(skipped) > len(obs) // 10:
        raise vlib.Infra("too many cases skipped (%d): %s" % (len(skipped), skipped[0]))
    lines, byid = proto.to_trace(obs, "C04")
    rejected, tr = proto.validate_trace("c04", lines)
    bycase = {c["id"]: c for c in cases}
    for rid in sorted(rejected):
        o = byid[rid]
        V.disagree(proto.failure_key(o), {"observation": o, "case": bycase[rid]})
    rc = V.finish()
    kinds = {}
    for o in obs:
        for c in o["calls"]:
            kinds.setdefault((o["dclass"], c["entry"], c["kind"]), 0)
            kinds[(o["dclass"], c["entry"], c["kind"])] += 1
    vlib.write_evidence("C04", tier, {
        "states": mc.distinct + tr.distinct, "transitions": mc.generated + tr.generated,
        "traces_validated_against_impl": len(byid),
        "evaluations": len(cases), "distinct_nontrivial": len(set(t for t, _ in texts)),
        "rule": "texts: hand-written non-JSON, truncated fixtures, YAML sources, BOM/UTF-16, random bytes, JSON that JSON-LD "
                "rejects; kept only if an independent json.Decoder fails (notJson) or a direct json-gold Flatten fails "
                "(ldReject); each run through entry points x channel modes x compiled profiles; distinct = distinct texts",
        "class_counts": nclass, "outcomes": {"%s/%s/%s" % k: v for k, v in sorted(kinds.items())},
        "samples": [{"data": vlib.trunc(c["data"], 120), "dclass": c["dclass"], "entry": c["entry"], "chan": c["chan"],
                     "observed": [x["kind"] for x in byid[c["id"]]["calls"]] if c["id"] in byid else "skipped"}
                    for c in cases[:: max(1, len(cases) // 8)]][:8],
        "checker_cmd": tr.cmd, "negative_control": "SwallowDecodeError -> %s" % neg.violated,
        "rejected": len(rejected), "known_findings_hit": sorted(V.known_hits),
    }, time.time() - t0, violations=len(V.violations))
    return rc


def replay(path):
    return proto.replay("C04", path)
