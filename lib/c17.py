"""C17 - entry points return a report or an error for any input; they never panic or block."""
import time

import corpus
import mutate
import proto
import vlib

ENTRIES = ["validate", "validateCfg", "compile", "validateCompiled", "validateCompiledCfg", "compileThenValidate"]


def gen_inputs(rnd, n):
    """(profile, data, pclass) triples: structured mutations of valid fixtures and raw bytes."""
    fx = corpus.fixture_pairs()
    base = [(corpus.OK_PROFILE, corpus.OK_DOCS[0]), (corpus.OK_PROFILE_NESTED, corpus.OK_DOCS[2]),
            (corpus.EVAL_ERROR_PROFILE, corpus.OK_DOCS[0])] + [(p, d) for p, d, _ in fx]
    sm = [(p, d) for p, d in base if len(d) < 20000]
    out = []
    for prof in corpus.PARSE_ERROR_PROFILES + corpus.GEN_ERROR_PROFILES + corpus.REGO_ERROR_PROFILES + corpus.NON_OBJECT_RESULT_PROFILES + corpus.EMPTY_SHAPE_PROFILES + \
            corpus.YAML_GRAPH_PROFILES * 3:
        out.append((prof, rnd.choice(corpus.OK_DOCS), "unknown"))
    # a profile whose evaluation fails at run time, and one with 70 quantified constraints, against every kind of document
    for prof in (corpus.EVAL_ERROR_PROFILE, corpus.MANY_QUANTIFIED_PROFILE):
        for d in corpus.OK_DOCS + corpus.NO_NODES_DOCS[:2] + corpus.NOT_JSON_DOCS[:2]:
            for _ in range(3):          # three times: the entry point and the channel mode rotate with the case index
                out.append((prof, d, "unknown"))
    for d in corpus.NO_NODES_DOCS + corpus.NOT_JSON_DOCS + corpus.LD_REJECT_DOCS:
        out.append((rnd.choice([corpus.OK_PROFILE, corpus.OK_PROFILE_NESTED]), d, "ok"))
    while len(out) < n:
        p, d = rnd.choice(sm)
        k = rnd.randrange(10)
        if k < 4:        # mutate the profile (1..3 stacked mutations), keep the data
            q = p
            for _ in range(rnd.choice([1, 1, 2, 3])):
                q = mutate.mutate_yaml(q, rnd)
            out.append((q, d, "unknown"))
        elif k < 8:      # mutate the data, keep the (valid) profile
            e = d
            for _ in range(rnd.choice([1, 1, 2, 3])):
                e = mutate.mutate_json(e, rnd)
            out.append((p, e, "ok"))
        elif k == 8:
            out.append((mutate.mutate_yaml(p, rnd), mutate.mutate_json(d, rnd), "unknown"))
        else:
            out.append((mutate.raw_bytes(rnd) if rnd.random() < .5 else p,
                        mutate.raw_bytes(rnd) if rnd.random() < .7 else d, "unknown"))
    return out


def run(tier):
    try:
        return run_(tier)
    except vlib.Blocked as e:
        V = vlib.Verdict("C17")
        V.disagree("entry points block after earlier calls failed in the same process", {"harness_report": str(e),
                   "history": "the warm-up calls of harness/cmd/acvh/warmup.go, then a valid compile + validate"})
        vlib.write_evidence("C17", tier, {"states": 1, "transitions": 1, "traces_validated_against_impl": 0,
                                          "samples": [str(e)], "evaluations": 1, "distinct_nontrivial": 0}, 0.0, violations=1)
        return V.finish()


def run_(tier):
    t0 = time.time()
    V = vlib.Verdict("C17")
    rnd = vlib.rng(17)
    mc = proto.model_check("ACV_protocol", "ACV protocol model")
    live = proto.model_check("ACV_live", "ACV liveness model (EveryCallReturns under weak fairness)")
    neg = proto.negative_control("PanicEscapes", "OutcomeIsReportOrError")
    n = 1500 if tier == "quick" else 40000
    inputs = gen_inputs(rnd, n)
    cls = vlib.run_harness("classify", [{"id": str(i), "data": d} for i, (_, d, _) in enumerate(inputs)], "c17_classify")
    dclass = {int(c["id"]): c["class"] for c in cls}
    cases = []
    for i, (p, d, pc) in enumerate(inputs):
        dc = dclass[i]
        cases.append({"entry": ENTRIES[i % len(ENTRIES)] if tier == "quick" else rnd.choice(ENTRIES),
                      "chan": rnd.choice(["none", "unbuf", "buf", "bufSmall"]), "profile": p, "data": d,
                      "pclass": pc, "dclass": dc if dc != "ok" else "unknown"})
        if i % 4 == 0:
            # the same texts submitted again, back to back, in the same process (a service retrying a request)
            cases.append(dict(cases[-1], chan="none", repeat=3))
    try:
        obs = proto.run_cases("c17", cases)
    except vlib.Blocked:
        raise
    except vlib.Infra as e:
        # a crash no recover() can stop (the Go runtime ends the process): that is "a panic" to the caller of a library
        txt = str(e)
        if not (("stack overflow" in txt or "goroutine stack exceeds" in txt) and "amf-custom-validator/" in txt):
            raise
        V.disagree("an entry point crashes the process (stack overflow inside the validator)", {"harness_stderr": txt[:1500] + "\n[...]\n" + txt[-2500:]})
        vlib.write_evidence("C17", tier, {"states": mc.distinct + live.distinct, "transitions": mc.generated + live.generated,
                                          "traces_validated_against_impl": 0, "evaluations": len(cases), "distinct_nontrivial": 0,
                                          "samples": [txt[-500:]]}, time.time() - t0, violations=len(V.violations))
        return V.finish()
    # the first call a process ever makes (no warm-up history): one process per case
    first = []
    pool = [(corpus.OK_PROFILE, d, "ok") for d in corpus.NO_NODES_DOCS + ["", " ", "[", "null", "0"]] + \
           [(p_, corpus.OK_DOCS[0], "unknown") for p_ in ("", "\n", "#", "a: [b", corpus.GEN_ERROR_PROFILES[0], corpus.NON_OBJECT_RESULT_PROFILES[0])]
    extra = [x for x in inputs[len(pool):]]
    rnd.shuffle(extra)
    for j, (p, d, pc) in enumerate(pool + extra[: (6 if tier == "quick" else 60)]):
        dc = "okNoNodes" if d in corpus.NO_NODES_DOCS else "unknown"
        first.append({"id": "c17-first-%03d" % j, "entry": ENTRIES[j % len(ENTRIES)], "chan": ["none", "unbuf", "buf"][j % 3],
                      "profile": p, "data": d, "pclass": pc, "dclass": dc, "debug": False})
    for k in range(0, len(first), 24):
        obs += vlib.run_harness("proto", first[k:k + 24], "c17_first", shards=24, env={"ACVH_NO_WARMUP": "1"})
    cases += first
    lines, byid = proto.to_trace(obs, "C17")
    rejected, tr = proto.validate_trace("c17", lines, timeout=3000)
    bycase = {c["id"]: c for c in cases}
    for rid in sorted(rejected):
        o = byid[rid]
        V.disagree(proto.failure_key(o), {"observation": o, "case": bycase[rid]})
    rc = V.finish()
    outcomes = {}
    for o in obs:
        for c in o["calls"]:
            key = (c["entry"], len(c["events"]) if c["hasChan"] else -1, c["kind"])
            outcomes[key] = outcomes.get(key, 0) + 1
    vlib.write_evidence("C17", tier, {
        "states": mc.distinct + live.distinct + tr.distinct, "transitions": mc.generated + live.generated + tr.generated,
        "traces_validated_against_impl": len(byid),
        "evaluations": len(cases), "distinct_nontrivial": len(outcomes),
        "rule": "inputs: hand-written class representatives (among them profiles that use YAML anchors, aliases to an "
                "enclosing node, merge keys, tags and several documents), 1-3 stacked structured mutations of every fixture profile "
                "(YAML line/token level) and data (JSON tree level), raw bytes; every call under recover() and a 45 s "
                "watchdog, with and without an event channel; distinct = distinct (entry, number of events seen, outcome)",
        "outcomes": {"%s/ev%d/%s" % k: v for k, v in sorted(outcomes.items())},
        "samples": [{"profile": vlib.trunc(c["profile"], 160), "data": vlib.trunc(c["data"], 100), "entry": c["entry"],
                     "observed": [x["kind"] for x in byid[c["id"]]["calls"]] if c["id"] in byid else "skipped"}
                    for c in cases[:: max(1, len(cases) // 8)]][:8],
        "checker_cmd": tr.cmd, "negative_control": "PanicEscapes -> %s" % neg.violated,
        "rejected": len(rejected), "known_findings_hit": sorted(V.known_hits),
    }, time.time() - t0, violations=len(V.violations))
    return rc


def replay(path):
    return proto.replay("C17", path)
