"""C14 - result locations reproduce the input's lexical source maps."""
import json
import time

import vlib

CFG = """INIT Init
NEXT Next
CONSTANTS
  Part = %(part)d
  NParts = %(nparts)d
INVARIANTS Facts Emit
"""

WORLD = {"targets": ["t1", "t2"],
         "nodes": {"t1": {"val": [False], "kids": {"child": ["k1", "k2"]}}, "t2": {"val": [False], "kids": {"child": ["k2"]}},
                   "k1": {"val": [False], "kids": {}}, "k2": {"val": [False], "kids": {}}}}
FORMULAS = [{"fid": "direct", "ast": {"k": "atom", "i": 1}},
            {"fid": "viaNested", "ast": {"k": "q", "q": "nested", "n": 0, "p": "child", "x": {"k": "atom", "i": 1}}}]
NODE_NS = "http://example.org/n/"


def observed_locations(report, base=None):
    """-> list of (what, focus node name, location dict or None) for every result (any depth) and each of its traces"""
    out = []

    def loc(n):
        m = n["maps"].get("location")
        if not m:
            return None
        rng = m["maps"].get("range", {"maps": {}})
        st = rng["maps"].get("start", {"scalars": {}})["scalars"]
        en = rng["maps"].get("end", {"scalars": {}})["scalars"]
        return {"uri": m["scalars"].get("uri"), "startLine": st.get("line"), "startColumn": st.get("column"),
                "endLine": en.get("line"), "endColumn": en.get("column")}

    def result(r):
        focus = r["scalars"].get("focusNode", "")
        focus = focus[len(base or NODE_NS):] if focus.startswith(base or NODE_NS) else focus
        if focus.startswith("t1/"):          # hierarchical ids (idStyle 1): the node is named by the last segment
            focus = focus.rsplit("/", 1)[1]
        out.append(("result", focus, loc(r)))
        for t in r["arrays"].get("trace", []):
            out.append(("trace", focus, loc(t)))
            tv = t["maps"].get("traceValue")
            if tv:
                for sub in tv["arrays"].get("subResult", []):
                    result(sub)
    for r in report["arrays"].get("result", []):
        result(r)
    return out


def run(tier):
    t0 = time.time()
    V = vlib.Verdict("C14")
    rnd = vlib.rng(14)
    quick = tier == "quick"
    nparts = 100
    parts = [(vlib.seed() * 7 + k) % nparts for k in range(1 if quick else 30)]
    from concurrent.futures import ThreadPoolExecutor
    with ThreadPoolExecutor(max_workers=8) as ex:
        rs = list(ex.map(lambda p: vlib.run_tlc("lex_p%02d" % p, "LexCases", CFG % {"part": p, "nparts": nparts},
                                                workers=2, timeout=1800), parts))
    scen = []
    for r in rs:
        vlib.tlc_must_pass(r, "Lexical facts")
        scen.extend(vlib.cases_from_prints(r))
    cases = []
    for i, s in enumerate(scen):
        lexical = {}
        for n, e in s["lex"].items():
            if e["mode"] == "node":
                lexical[n] = {"range": e["range"], "nodeLevel": True, "propLevel": rnd.random() < 0.3}
            elif e["mode"] == "propOnly":
                lexical[n] = {"range": e["range"], "nodeLevel": False, "propLevel": True}
        cases.append({"id": "lx%05d" % i, "world": WORLD, "kinds": [0], "formulas": FORMULAS, "spell": 0,
                      "level": {"direct": rnd.choice(["violation", "warning"]), "viaNested": "violation"},
                      "lexical": lexical, "hasSource": s["hasMaps"] and s["hasSource"], "root": s["src"]["root"],
                      "additional": {f: sorted(ns) for f, ns in s["src"]["additional"].items() if ns},
                      "rangeStyle": rnd.randrange(6), "compareStripped": True, "ctxRef": rnd.randrange(3),
                      "idStyle": i % 2})
    obs = vlib.run_harness("reporttree", cases, "c14", timeout=3000)
    oby = {o["id"]: o for o in obs}
    nloc = 0
    noreport = []
    for s, c in zip(scen, cases):
        o = oby[c["id"]]
        if o.get("err"):
            noreport.append(o["err"])     # no report, nothing for C14 to say
            continue
        if not o.get("report"):
            V.disagree("report is not a valid document: %s" % (o.get("valid") or "")[:60], {"case": c})
            continue
        locs = observed_locations(o["report"], "http://example.org/m/" if c.get("ctxRef") == 2 else NODE_NS)
        if len(locs) < 8:
            raise vlib.Infra("expected results/traces about all four nodes, got %s" % locs)
        bad = None
        for what, focus, got in locs:
            e = s["expect"].get(focus)
            if e is None:
                bad = ("unknown focus " + focus, what, focus, got, None)
                break
            want = None if e["uri"] == "none" else {k: (str(e[k]) if k != "uri" else e[k]) for k in
                                                      ("uri", "startLine", "startColumn", "endLine", "endColumn")}
            if want:
                nloc += 1
                if not s["hasSource"]:
                    # no file is named anywhere: the property fixes the numbers, not the uri
                    want = dict(want, uri=(got or {}).get("uri"))
            if got != want:
                kind = "missing location" if got is None else ("unexpected location" if want is None else
                                                                "wrong " + "+".join(k for k in want if want[k] != got.get(k)))
                bad = (kind, what, focus, got, want)
                break
        if bad:
            V.disagree("%s on a %s" % (bad[0], bad[1]), {"case": c, "focus": bad[2], "observed": bad[3], "expected": bad[4]})
            continue
        if o.get("strippedEqual") != "yes":
            V.disagree("source maps change the report beyond locations", {"case": c, "strippedEqual": o.get("strippedEqual")})
    if len(noreport) > len(cases) // 3:
        raise vlib.Infra("%d of %d validations returned an error instead of a report: %s" % (len(noreport), len(cases), noreport[0][:300]))
    rc = V.finish()
    vlib.write_evidence("C14", tier, {
        "validations_without_report": len(noreport),
        "states": sum(r.distinct for r in rs), "transitions": sum(r.generated for r in rs),
        "traces_validated_against_impl": len(cases),
        "evaluations": len(cases), "distinct_nontrivial": sum(1 for s in scen if s["hasMaps"]),
        "rule": "scenarios enumerated by TLC (LexCases.tla, %d of 100 hash slices of 3^4 entry modes x 3^4 file assignments x 12 "
                "range tuples with magnitudes 0..123456 rotated per node, plus the no-source-maps scenario); rendered as "
                "AMF-shaped SourceMap/lexical/BaseUnitSourceInformation nodes (3 range spellings, single-vs-array lexical, flat node ids and "
                "hierarchical ones where a child's id extends its parent's), "
                "validated with a profile producing results, traces and nested sub-results about all four nodes; every "
                "location compared with Graph!Location, and the report compared with the one of the stripped graph; "
                "non-trivial = scenario with source maps" % len(parts),
        "locations_compared": nloc,
        "samples": [{"lex": s["lex"], "expect": s["expect"]} for s in scen[:: max(1, len(scen) // 3)]][:3],
        "checker_cmd": rs[0].cmd, "known_findings_hit": sorted(V.known_hits),
    }, time.time() - t0, violations=len(V.violations))
    return rc


def replay(path):
    doc = json.load(open(path))
    c = doc["case"]["case"]
    obs = vlib.run_harness("reporttree", [c], "replay_c14", shards=1)
    locs = observed_locations(obs[0]["report"]) if obs[0].get("report") else []
    print(json.dumps(locs, indent=1))
    exp = doc["case"].get("expected")
    foc = doc["case"].get("focus")
    for what, focus, got in locs:
        if focus == foc and got != exp:
            print("VIOLATION property=C14 replay=%s" % path)
            return 1
    return 0
