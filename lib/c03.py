"""C03 - conforms, severities and report header agree with the result list."""
import json
import time

import vlib

CFG = """INIT Init
NEXT Next
CONSTANTS
  Part = %(part)d
  NParts = %(nparts)d
INVARIANTS Facts Emit
"""


def expected_proj(e):
    res = sorted(({"severity": r["severity"], "name": r["name"], "focus": r["focus"]} for r in e["results"]),
                 key=lambda r: r["severity"] + "|" + r["name"] + "|" + r["focus"])
    return {"conforms": e["conforms"], "hasResultKey": e["hasResultKey"], "results": res,
            "profileName": e["profileName"], "date": e["date"], "schema": e["schema"]}


def diff_fields(want, got):
    bad = [k for k in want if k != "schema" and want[k] != got.get(k)]
    # schema IRIs: the report schema is always in the @context, the lexical schema only when there are results
    ws = want["schema"]
    if not want["results"]:
        ws = {"alt": "alt", "altRep": "alt", "altLex": "default", "default": "default", "none": "none", "noRep": "none", "noLex": "default"}[ws]
    if got.get("schema") != ws:
        bad.append("schema")
    return bad


def run(tier):
    t0 = time.time()
    V = vlib.Verdict("C03")
    quick = tier == "quick"
    nparts = 400
    parts = [vlib.seed() % nparts, (vlib.seed() * 7 + 13) % nparts] if quick else list(range(vlib.seed() % 10, nparts, 10))
    from concurrent.futures import ThreadPoolExecutor
    with ThreadPoolExecutor(max_workers=8) as ex:
        rs = list(ex.map(lambda p: vlib.run_tlc("rc_p%02d" % p, "ReportCases", CFG % {"part": p, "nparts": nparts},
                                                workers=2, timeout=1800), parts))
    cases = []
    for r in rs:
        vlib.tlc_must_pass(r, "Report design facts")
        cases.extend(vlib.cases_from_prints(r))
    if not cases:
        raise vlib.Infra("no scenarios")
    rnd = vlib.rng(3)
    rows = []
    for i, c in enumerate(cases):
        rows.append({"id": "rc%06d" % i, "profile": c["profile"], "cfg": c["cfg"], "variant": rnd.randrange(4)})
    obs = vlib.run_harness("report", rows, "c03", timeout=3000)
    nontriv = 0
    noreport = []
    oby = {o["id"]: o for o in obs}
    for c, row in zip(cases, rows):
        o = oby[row["id"]]
        want = expected_proj(c["expect"])
        if want["results"]:
            nontriv += 1
        for entry in ("validate", "compiled"):
            got = o[entry]
            if got.get("err"):
                noreport.append(got["err"])      # no report, nothing for C03 to say (C07 / C17 decide whether it should exist)
                break
            if got.get("valid"):
                V.disagree("%s: %s" % (entry, got["valid"][:60]), {"scenario": row, "expected": want, "observed": got})
                break
            bad = diff_fields(want, got)
            if bad:
                V.disagree("report field(s) %s differ" % "+".join(bad), {"scenario": row, "entry": entry, "expected": want, "observed": got})
                break
    if len(noreport) > len(rows) // 3:
        raise vlib.Infra("%d of %d scenarios returned an error instead of a report: %s" % (len(noreport), len(rows), noreport[0][:300]))
    rc = V.finish()
    vlib.write_evidence("C03", tier, {
        "scenarios_without_report": len(noreport),
        "states": sum(r.distinct for r in rs), "transitions": sum(r.generated for r in rs),
        "traces_validated_against_impl": len(rows) * 2,
        "evaluations": len(rows) * 2, "distinct_nontrivial": nontriv,
        "rule": "scenarios enumerated by TLC (ReportCases.tla): every distribution of validations a, b and an undefined name over "
                "the three level lists x which are defined x on which of two target nodes each fails x 8 report configurations "
                "x 2 profile names x 4 clocks x 7 schema configurations (both IRIs default / alternative / one changed / left empty; 1433600 scenarios in 400 slices; %d slice(s) in this run); design facts (conforms iff no Violation result, "
                "warnings/infos never change conforms, configuration locality, result key iff results) checked on each; every "
                "scenario rendered (level order / absent-vs-empty level by seed) and run through ValidateWithConfiguration and "
                "CompileProfile+ValidateCompiledWithConfiguration; non-trivial = scenario with a non-empty result list"
                % len(parts),
        "exhaustive": False,
        "samples": [{"profile": c["profile"], "cfg": c["cfg"], "expect": expected_proj(c["expect"])} for c in cases[:: max(1, len(cases) // 4)]][:4],
        "checker_cmd": rs[0].cmd, "known_findings_hit": sorted(V.known_hits),
    }, time.time() - t0, violations=len(V.violations))
    return rc


def replay(path):
    doc = json.load(open(path))
    row = dict(doc["case"]["scenario"])
    row["id"] = "replay"
    obs = vlib.run_harness("report", [row], "replay_c03", shards=1)
    print(json.dumps(obs[0], indent=1))
    want = doc["case"]["expected"]
    for entry in ("validate", "compiled"):
        if diff_fields(want, obs[0][entry]) or obs[0][entry].get("err"):
            print("VIOLATION property=C03 replay=%s" % path)
            return 1
    return 0
