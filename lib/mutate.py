"""Seeded input generators / mutators for the input-quantified properties (C04, C17).
They only *produce* texts; which class a text belongs to is decided by `acvh classify`."""
import json
import re

import corpus

SCALARS = ["[targetClass]", "[count]", "[a, b, propertyConstraints]", "[message, targetClass, x]", "[validation]",
           "[if, then, else]", "[count, validation, count]", "[propertyConstraints]", "[profile]", "[x, targetClass]", "5", "-1", "0", "1.5", "true", "null", "[]", "{}", "[1, 2]", "{a: 1}", "''", "x", "nope.thing", "~",
           "99999999999999999999", "'a.b / / c.d'", "\"\\u0000\"", "!!binary aGk=", "&a x", "*a"]
KEYS = ["minCount", "maxCount", "exactCount", "minLength", "maxLength", "pattern", "in", "containsAll", "containsSome",
        "nested", "atLeast", "atMost", "count", "validation", "lessThanProperty", "equalsToProperty", "datatype",
        "minInclusive", "maxExclusive", "uniqueValues", "rego", "regoModule", "code", "message", "targetClass",
        "propertyConstraints", "and", "or", "not", "if", "then", "else", "profile", "validations", "violation",
        "warning", "info", "prefixes", "rego_extensions", "exactly", "moreThanProperty", "disjointWithProperty"]
PATH_JUNK = ["a.b /", "/ a.b", "a.b | ", "(a.b", "a.b)", "a.b ^ ^", "@type", "@type / a.b", "nope.x", "a", ".", "a.",
             ".b", "a.b / (c.d | e.f)^", "a.b*", "doc.encodes / doc.declares^", "(((doc.a)))", "doc.a | | doc.b", "",
             "doc.a,", "doc.a b", "apiExt.custom", "apiExt.custom^", "shapes.schema / apiExt.x / shacl.name"]


def mutate_yaml(text, rnd):
    """One structured mutation of a YAML profile text (line/token level)."""
    lines = text.split("\n")
    idx = [i for i, l in enumerate(lines) if l.strip() and not l.strip().startswith("#")]
    if not idx:
        return rnd.choice(SCALARS)
    i = rnd.choice(idx)
    op = rnd.randrange(16)
    l = lines[i]
    ind = len(l) - len(l.lstrip())
    if op == 0:
        del lines[i]
    elif op == 1:
        lines.insert(i, l)
    elif op == 2:
        lines[i] = " " * max(0, ind + rnd.choice([-2, 2, 1, -4])) + l.lstrip()
    elif op == 3 and ":" in l:
        k, _, _ = l.partition(":")
        lines[i] = k + ": " + rnd.choice(SCALARS)
    elif op == 4 and ":" in l:
        _, _, v = l.partition(":")
        lines[i] = " " * ind + rnd.choice(KEYS) + ":" + v
    elif op == 5 and ":" in l:
        k, _, v = l.partition(":")
        lines[i] = " " * ind + rnd.choice(PATH_JUNK) + ":" + v
    elif op == 6:
        # delete the whole block below this line
        j = i + 1
        while j < len(lines) and (not lines[j].strip() or len(lines[j]) - len(lines[j].lstrip()) > ind):
            j += 1
        del lines[i + 1:j]
    elif op == 7:
        lines[i] = re.sub(r"\b([a-zA-Z-]+)\.", lambda m: rnd.choice(["nope", "x_y", "", m.group(1)]) + ".", l, count=1)
    elif op == 8 and l.strip().startswith("- "):
        lines[i] = " " * ind + "- " + rnd.choice(SCALARS)
    elif op == 9:
        j = rnd.choice(idx)
        lines[i], lines[j] = lines[j], lines[i]
    elif op == 10:
        lines.insert(i + 1, " " * (ind + 2) + rnd.choice(KEYS) + ": " + rnd.choice(SCALARS))
    elif op in (14, 15) and l.rstrip().endswith(":"):
        # a block (mapping) replaced by a flow sequence / scalar naming some of the keys a mapping would hold
        j = i + 1
        while j < len(lines) and (not lines[j].strip() or len(lines[j]) - len(lines[j].lstrip()) > ind):
            j += 1
        del lines[i + 1:j]
        lines[i] = l.rstrip() + " " + rnd.choice(SCALARS[:10] + ["[]", "{}", "~", "x"])
    elif op == 11:
        cut = rnd.randrange(len(text) + 1)
        return text[:cut]
    elif op == 12:
        pos = rnd.randrange(len(text) + 1)
        return text[:pos] + rnd.choice(["\t", "\"", "'", "{", "[", ":", "- ", "\n", "%", "\\", "\u00e9", "\x00"]) + text[pos:]
    else:
        lines[i] = l + " " + rnd.choice(["# c", ": x", "[", "|", ">", "x"])
    return "\n".join(lines)


JSON_JUNK = [5, -1, 1.5, True, None, [], {}, "x", [[1]], {"@id": 5}, {"@value": {"a": 1}}, {"@list": [[1]]},
             {"@value": 1, "@language": 5}, {"@value": 1, "@type": 7}, "[(1,2)-(3,4)]", "[(a,b)]", "", {"@id": "_:b0"},
             {"@id": "relative"}, {"@type": "@id"}, 12345678901234567890]


def _walk(v, path, acc):
    acc.append((path, v))
    if isinstance(v, dict):
        for k in v:
            _walk(v[k], path + [k], acc)
    elif isinstance(v, list):
        for i, x in enumerate(v):
            _walk(x, path + [i], acc)


def _set(root, path, value, delete=False):
    if not path:
        return value
    cur = root
    for p in path[:-1]:
        cur = cur[p]
    if delete:
        del cur[path[-1]]
    else:
        cur[path[-1]] = value
    return root


def mutate_json(text, rnd):
    try:
        v = json.loads(text)
    except Exception:
        return text[: rnd.randrange(len(text) + 1)]
    acc = []
    _walk(v, [], acc)
    path, val = rnd.choice(acc)
    op = rnd.randrange(9)
    try:
        if op == 0 and path:
            v = _set(v, path, None, delete=True)
        elif op == 1:
            v = _set(v, path, rnd.choice(JSON_JUNK))
        elif op == 2 and isinstance(val, dict):
            val[rnd.choice(["@id", "@type", "@context", "@graph", "@value", "@reverse", "@list", "@language",
                            "http://a.ml/vocabularies/document-source-maps#element",
                            "http://a.ml/vocabularies/document-source-maps#value",
                            "http://a.ml/vocabularies/document#rootLocation"])] = rnd.choice(JSON_JUNK)
        elif op == 3 and isinstance(val, list) and val:
            val.append(val[rnd.randrange(len(val))])
        elif op == 4 and isinstance(val, dict) and "@id" in val:
            val["@id"] = rnd.choice([5, None, "", "_:b1", "relative", ["a"], {"@id": "x"}])
        elif op == 5 and isinstance(val, dict) and "@type" in val:
            val["@type"] = rnd.choice([5, None, "", "http://a.ml/vocabularies/document-source-maps#SourceMap",
                                       "http://a.ml/vocabularies/document#BaseUnitSourceInformation", [5], {"a": 1}])
        elif op == 6:
            return text[: rnd.randrange(len(text) + 1)]
        elif op == 7:
            v = {"@context": rnd.choice([5, {"a": 5}, {"@vocab": 3}, None, ["x"]]), "@graph": v}
        else:
            v = _set(v, path, {"@value": val} if not isinstance(val, (dict, list)) else [val])
    except Exception:
        pass
    return json.dumps(v)


def raw_bytes(rnd, n=None):
    n = n if n is not None else rnd.randrange(0, 80)
    alphabet = "{}[]:,\"'\\ \n\t-#%@.|/^()abcdefxyz0123456789\u00e9\u6f22\x00\x7f"
    return "".join(rnd.choice(alphabet) for _ in range(n))


def truncations(text, rnd, k):
    out = []
    for _ in range(k):
        out.append(text[: rnd.randrange(0, max(1, len(text)))])
    return out


def unreadable_candidates(rnd, per_fixture=4, fixtures=12):
    """Texts that are *probably* unreadable; classify keeps those that really are."""
    out = list(corpus.NOT_JSON_DOCS) + list(corpus.LD_REJECT_DOCS)
    fx = corpus.fixture_pairs()
    rnd.shuffle(fx)
    for p, d, _ in fx[:fixtures]:
        out.extend(truncations(d, rnd, per_fixture))
        out.append(p)                                   # the YAML/RAML-like source itself
        out.append("\ufeff" + d)                        # BOM
        out.append(d.encode("utf-16").decode("latin-1"))  # wrong encoding
        try:
            v = json.loads(d)
            out.append(json.dumps({"@context": 5, "@graph": v}))
            if isinstance(v, list) and v and isinstance(v[0], dict):
                w = json.loads(d)
                w[0]["@id"] = 7
                out.append(json.dumps(w))
                w = json.loads(d)
                w[0]["@type"] = {"x": 1}
                out.append(json.dumps(w))
        except Exception:
            pass
    # sources in other formats that CONTAIN complete JSON values: an API description with a JSON example, tool output
    # in front of a document, a YAML flow collection on a line of its own
    out.append("#%RAML 1.0\ntitle: api\ntypes:\n  T:\n    example: |\n{\n  \"a\": 1\n}\n")
    out.append("openapi: 3.0.0\ninfo:\n  title: x\nx-example:\n[]\n")
    out.append("WARNING: an illegal reflective access operation has occurred\n" + '[{"@id": "http://example.org/n1"}]' + "\ntrailing words\n")
    out.append("title: x\n{}\nmore: yaml\n")
    out.append("Picked up JAVA_TOOL_OPTIONS\n{\"@graph\": []}\n")
    for _ in range(per_fixture * 3):
        out.append(raw_bytes(rnd))
    return out
