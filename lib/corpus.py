"""Concrete representatives of the abstract input classes of spec/ACVBase.tla.
Class membership is by construction (what the text *is*), never by asking the
code under test."""
import glob
import json
import os

from vlib import REPO

EX = "http://example.org/ns#"

OK_PROFILE = """#%Validation Profile 1.0
profile: proto
prefixes:
  ex: http://example.org/ns#
violation:
  - v1
warning:
  - w1
validations:
  v1:
    targetClass: ex.T
    message: p is required
    propertyConstraints:
      ex.p:
        minCount: 1
  w1:
    targetClass: ex.T
    message: q must be short
    propertyConstraints:
      ex.q:
        maxLength: 3
"""

OK_PROFILE_NESTED = """#%Validation Profile 1.0
profile: proto nested
prefixes:
  ex: http://example.org/ns#
violation:
  - v1
validations:
  v1:
    targetClass: ex.T
    message: children must have p
    or:
      - propertyConstraints:
          ex.child:
            nested:
              propertyConstraints:
                ex.p:
                  minCount: 1
      - propertyConstraints:
          ex.q:
            pattern: ^ok$
"""

# compiles, but evaluation fails on any graph with two or more nodes
EVAL_ERROR_PROFILE = """#%Validation Profile 1.0
profile: evalerr
prefixes:
  ex: http://example.org/ns#
rego_extensions: |
  conflicting = x {
    x := input["@ids"][_]["@id"]
  }
violation:
  - v1
validations:
  v1:
    targetClass: ex.T
    message: never
    rego: |
      $result = (conflicting == "zzz")
"""


# compiles and evaluates, but the custom Rego adds something that is not a result object to a level's result set
NON_OBJECT_RESULT_PROFILES = [
    "profile: x\nprefixes:\n  ex: http://example.org/ns#\nrego_extensions: |\n  violation[x] { x := \"foo\" }\nviolation: [v]\nvalidations:\n  v:\n    targetClass: ex.T\n    propertyConstraints:\n      ex.p:\n        minCount: 1\n",
    "profile: x\nprefixes:\n  ex: http://example.org/ns#\nrego_extensions: |\n  warning[x] { x := 5 }\n  info[x] { x := [1] }\nviolation: [v]\nwarning: [v]\ninfo: [v]\nvalidations:\n  v:\n    targetClass: ex.T\n    propertyConstraints:\n      ex.p:\n        minCount: 1\n",
]


def node(i, **props):
    n = {"@id": "http://example.org/n%d" % i, "@type": [EX + "T"]}
    for k, v in props.items():
        n[EX + k] = v
    return n


OK_DOCS = [
    json.dumps([node(1), node(2, p="x", q="toolong")]),
    json.dumps([node(1, p="x", q="ok")]),
    json.dumps({"@graph": [node(1, child=[{"@id": "http://example.org/n2"}]), node(2, p=1), node(3)]}),
    json.dumps({"@context": {"ex": EX}, "@id": "http://example.org/n1", "@type": "ex:T", "ex:q": "ok"}),
]

NO_NODES_DOCS = ["{}", "[]", '{"@graph": []}', '{"@context": {"ex": "http://example.org/ns#"}}', "[{}]",
                 '  {"@graph": [ ]}  ']

NOT_JSON_DOCS = ["", "   ", "\n", "{", "[", '{"@id": "http://a/b"', '[{"@id": "http://a/b"},', "#%RAML 1.0\ntitle: api\n",
                 "title: x", "<xml/>", "\ufeff{}", "{'a': 1}", "nul", "[1, 2", '{"a" 1}', "\x00\x01\x02",
                 '"unterminated', "{\"@graph\": [}"]

# documents on which json-gold v0.4.0 itself panics (nil term definitions): JSON-LD processing rejects them too
LD_PANIC_DOCS = [
    '{"@context": {"a": {"@id": "http://a.ml/a", "@container": null}}, "a": 1}',
    '{"@context": {"a": {"@id": "http://a.ml/a", "@container": "@graph"}}, "a": 1}',
    '{"@context": {"a": {"@id": "http://a.ml/a", "@container": 5}}, "a": 1}',
    '{"@context": {"a": {"@id": "http://a.ml/a", "@protected": 5}}, "a": 1}',
]

LD_REJECT_DOCS = LD_PANIC_DOCS + [
    '{"@context": 5}',
    '{"@context": {"a": 5}}',
    '{"@id": 5}',
    '{"@context": {"@vocab": 3}, "a": 1}',
    '{"@context": {"a": {"@id": "http://a/", "@type": 7}}, "a": "x"}',
    '{"@context": {"a": "b", "b": "a"}, "a": 1}',
    '{"@type": 5, "@id": "http://a/b"}',
    '[{"@id": "http://a/b", "http://a/p": {"@value": {"x": 1}}}]',
    '{"@reverse": 4, "@id": "http://a/b"}',
    '{"@graph": {"@id": 7}}',
    '{"@id": "http://a/b", "http://a/p": {"@list": [[1]], "@id": "x"}}',
    '{"@id": "http://a/b", "http://a/p": {"@value": 1, "@language": 5}}',
]

PARSE_ERROR_PROFILES = [
    "",                                   # empty text
    "   \n",
    "a: [b",                              # invalid YAML
    "- a\n- b\n",                         # not a mapping
    "just a string",
    "profile: x\n",                       # validations missing
    "validations: {}\n",                  # profile name missing
    "profile: x\nvalidations: 5\n",
    "profile: x\nviolation: [v]\nvalidations:\n  v:\n    message: m\n    propertyConstraints:\n      ex.p:\n        minCount: 1\n",  # targetClass missing
    "profile: x\nviolation: [v]\nvalidations:\n  v:\n    targetClass: doc.Unit\n",  # no expression
    "profile: x\nviolation: [v]\nvalidations:\n  v:\n    targetClass: doc.Unit\n    and: 5\n",
    "profile: x\nviolation: [v]\nvalidations:\n  v:\n    targetClass: doc.Unit\n    if:\n      propertyConstraints:\n        doc.a:\n          minCount: 1\n",  # if without then
    "profile: x\nprefixes: 5\nvalidations: {}\n",
    "profile: x\nviolation: [v]\nvalidations:\n  v:\n    targetClass: doc.Unit\n    propertyConstraints:\n      doc.a: 5\n",
    "profile: x\nviolation: [v]\nvalidations:\n  v:\n    targetClass: doc.Unit\n    propertyConstraints:\n      doc.a:\n        atLeast:\n          count: 1\n",
]

# sequences (naming keys) where the profile language expects a mapping
PARSE_ERROR_PROFILES += [
    "profile: x\nviolation: [v]\nvalidations:\n  v: [targetClass]\n",
    "profile: x\nviolation: [v]\nvalidations:\n  v: [message, x, targetClass]\n",
    "profile: x\nviolation: [v]\nvalidations:\n  v:\n    targetClass: doc.Unit\n    propertyConstraints:\n      doc.a:\n        atLeast: [count]\n",
    "profile: x\nviolation: [v]\nvalidations:\n  v:\n    targetClass: doc.Unit\n    propertyConstraints:\n      doc.a:\n        atMost: [validation, 1, count]\n",
    "profile: x\nviolation: [v]\nvalidations:\n  v:\n    targetClass: doc.Unit\n    if: [a, b, propertyConstraints]\n    then: [propertyConstraints]\n",
    "profile: x\nviolation: [v]\nvalidations:\n  v:\n    targetClass: doc.Unit\n    not: [and]\n",
    "[profile]\n",
    "profile: x\nprefixes: [ex]\nviolation: [v]\nvalidations:\n  v:\n    targetClass: doc.Unit\n    propertyConstraints: [doc.a]\n",
]

# connectives and constraint maps without operands, alone and next to other operands; misspelt constraint names
# (whether each is an error or an empty conjunction is the implementation's choice: what must not happen is a panic)
def _wrap(body):
    return "profile: x\nprefixes:\n  ex: http://example.org/ns#\nviolation: [v]\nvalidations:\n  v:\n    targetClass: ex.T\n    message: m\n" + body


EMPTY_SHAPE_PROFILES = [_wrap(b) for b in (
    "    and: []\n", "    or: []\n", "    propertyConstraints: {}\n", "    not:\n      and: []\n", "    not:\n      or: []\n",
    "    and:\n      - and: []\n      - propertyConstraints:\n          ex.p:\n            minCount: 1\n",
    "    or:\n      - propertyConstraints:\n          ex.p:\n            minCount: 1\n      - or: []\n",
    "    or:\n      - propertyConstraints: {}\n      - propertyConstraints:\n          ex.p:\n            minCount: 1\n",
    "    and:\n      - propertyConstraints:\n          ex.p:\n            minCounts: 1\n      - propertyConstraints:\n          ex.q:\n            minCount: 1\n",
    "    propertyConstraints:\n      ex.p:\n        minCounts: 1\n      ex.q:\n        minCount: 1\n",
    "    propertyConstraints:\n      ex.p: {}\n      ex.q:\n        minCount: 1\n",
    "    propertyConstraints:\n      ex.child:\n        nested:\n          propertyConstraints: {}\n      ex.q:\n        minCount: 1\n",
    "    propertyConstraints:\n      ex.child:\n        nested:\n          and: []\n",
    "    propertyConstraints:\n      ex.child:\n        atLeast:\n          count: 1\n          validation:\n            or: []\n      ex.q:\n        minCount: 1\n",
    "    if:\n      and: []\n    then:\n      or: []\n",
    "    not:\n      or:\n        - and: []\n        - propertyConstraints:\n            ex.p:\n              minCount: 1\n",
)]

# one validation with 70 quantified constraints side by side (more than any fixed-size table of names a translator may keep)
MANY_QUANTIFIED_PROFILE = _wrap("    propertyConstraints:\n" + "".join(
    "      ex.c%d:\n        %s\n" % (i, ["nested:\n          propertyConstraints:\n            ex.p:\n              minCount: 1",
                                         "atLeast:\n          count: 1\n          validation:\n            propertyConstraints:\n              ex.p:\n                minCount: 1",
                                         "atMost:\n          count: 2\n          validation:\n            propertyConstraints:\n              ex.q:\n                minCount: 1"][i % 3])
    for i in range(70)))

GEN_ERROR_PROFILES = [
    # unknown prefix in targetClass
    "profile: x\nviolation: [v]\nvalidations:\n  v:\n    targetClass: nope.Unit\n    propertyConstraints:\n      doc.a:\n        minCount: 1\n",
    # unknown prefix in a path
    "profile: x\nviolation: [v]\nvalidations:\n  v:\n    targetClass: doc.Unit\n    propertyConstraints:\n      nope.a:\n        minCount: 1\n",
    # class that is not a compact IRI
    "profile: x\nviolation: [v]\nvalidations:\n  v:\n    targetClass: NotCompact\n    propertyConstraints:\n      doc.a:\n        minCount: 1\n",
    # unknown prefix in datatype
    "profile: x\nviolation: [v]\nvalidations:\n  v:\n    targetClass: doc.Unit\n    propertyConstraints:\n      doc.a:\n        datatype: nope.string\n",
    # unknown prefix in the compared property
    "profile: x\nviolation: [v]\nvalidations:\n  v:\n    targetClass: doc.Unit\n    propertyConstraints:\n      doc.a:\n        lessThanProperty: nope.b\n",
    # unknown prefix under nested
    "profile: x\nviolation: [v]\nvalidations:\n  v:\n    targetClass: doc.Unit\n    propertyConstraints:\n      doc.a:\n        nested:\n          propertyConstraints:\n            nope.b:\n              minCount: 1\n",
]

REGO_ERROR_PROFILES = [
    "profile: x\nviolation: [v]\nvalidations:\n  v:\n    targetClass: doc.Unit\n    rego: |\n      $result = ((\n",
    "profile: x\nrego_extensions: |\n  this is not rego {{{\nviolation: [v]\nvalidations:\n  v:\n    targetClass: doc.Unit\n    propertyConstraints:\n      doc.a:\n        minCount: 1\n",
    "profile: x\nviolation: [v]\nvalidations:\n  v:\n    targetClass: doc.Unit\n    rego: |\n      r := http.send({\"method\": \"get\", \"url\": \"http://127.0.0.1:9/\"})\n      $result = (r.status_code == 200)\n",
    "profile: x\nviolation: [v]\nvalidations:\n  v:\n    targetClass: doc.Unit\n    rego: |\n      $result = undefined_function_xyz($node)\n",
    "profile: x\nviolation: [v]\nvalidations:\n  v:\n    targetClass: doc.Unit\n    propertyConstraints:\n      doc.a:\n        rego:\n          message: m\n          code: |\n            $result = (1 +)\n",
]


def fixture_pairs(limit=None):
    """(profile text, data text, name) for fixture directories of the repository's own suite."""
    out = []
    for d in sorted(glob.glob(os.path.join(REPO, "test/data/tck/*/*"))):
        p, dt = os.path.join(d, "profile.yaml"), os.path.join(d, "data.jsonld")
        if os.path.exists(p) and os.path.exists(dt):
            out.append((open(p).read(), open(dt).read(), os.path.relpath(d, REPO)))
    for p in sorted(glob.glob(os.path.join(REPO, "test/data/integration/profile*/profile.yaml"))):
        d = os.path.dirname(p)
        for dt in sorted(glob.glob(os.path.join(d, "*.jsonld"))):
            if dt.endswith(".report.jsonld"):
                continue
            out.append((open(p).read(), open(dt).read(), os.path.relpath(dt, REPO)))
    return out[:limit] if limit else out


def representatives(pclass, dclass):
    """All (profile, data) concrete pairs for an abstract class pair."""
    profs = {"ok": [OK_PROFILE, OK_PROFILE_NESTED], "parseError": PARSE_ERROR_PROFILES,
             "genError": GEN_ERROR_PROFILES, "regoError": REGO_ERROR_PROFILES,
             "reportError": NON_OBJECT_RESULT_PROFILES}[pclass]
    docs = {"ok": OK_DOCS, "okNoNodes": NO_NODES_DOCS, "notJson": NOT_JSON_DOCS,
            "ldReject": LD_REJECT_DOCS, "evalError": OK_DOCS[:1] + OK_DOCS[2:3]}[dclass]
    if dclass == "evalError" and pclass == "ok":
        profs = [EVAL_ERROR_PROFILE]
    if dclass == "evalError" and pclass == "reportError":
        profs = []      # an evaluation error is a property of the profile here: no representative for this pair
    return profs, docs


# YAML is a graph language: anchors, aliases (also to an enclosing node), merge keys, tags, several documents.  What each
# of these means to the profile language is the implementation's choice (today an alias is "not a map"): what must not
# happen is a panic, a crash of the process or a call that does not return
_YG_HEAD = "profile: x\nprefixes:\n  ex: http://example.org/ns#\nviolation: [v]\nvalidations:\n"
YAML_GRAPH_PROFILES = [_YG_HEAD + b for b in (
    "  v: &r\n    targetClass: ex.T\n    message: m\n    not: *r\n",
    "  v: &r\n    targetClass: ex.T\n    message: m\n    and:\n      - *r\n      - *r\n",
    "  v: &r\n    targetClass: ex.T\n    message: m\n    or: [*r]\n",
    "  v: &r\n    targetClass: ex.T\n    message: m\n    if: *r\n    then: *r\n    else: *r\n",
    "  v: &r\n    targetClass: ex.T\n    message: m\n    propertyConstraints:\n      ex.child:\n        nested: *r\n",
    "  v: &r\n    targetClass: ex.T\n    message: m\n    propertyConstraints:\n      ex.child:\n        atLeast:\n          count: 1\n          validation: *r\n",
    "  v:\n    targetClass: ex.T\n    message: m\n    propertyConstraints: &pc\n      ex.child:\n        nested:\n          propertyConstraints: *pc\n",
    "  v:\n    targetClass: ex.T\n    message: m\n    not: &n\n      not: *n\n",
    "  v: &r\n    targetClass: ex.T\n    message: m\n    propertyConstraints:\n      ex.p:\n        minCount: 1\n  w: *r\n",
    "  v:\n    targetClass: ex.T\n    message: m\n    propertyConstraints:\n      ex.p: &c\n        minCount: 1\n      ex.q: *c\n",
    "  v:\n    <<: &base\n      targetClass: ex.T\n      message: m\n    propertyConstraints:\n      ex.p:\n        minCount: 1\n  w:\n    <<: *base\n    propertyConstraints:\n      ex.q:\n        minCount: 1\n",
    "  v:\n    targetClass: !!str ex.T\n    message: !!binary aGVsbG8=\n    propertyConstraints:\n      ex.p:\n        minCount: !!int \"1\"\n",
    "  v:\n    targetClass: ex.T\n    message: m\n    propertyConstraints:\n      ex.p:\n        minCount: 1\n---\nprofile: y\n",
    "  v:\n    targetClass: ex.T\n    message: m\n    propertyConstraints:\n      ex.p:\n        in: &a [&b [&c [x, x], *c], *b]\n",
    "  v:\n    targetClass: ex.T\n    message: &m m\n    propertyConstraints:\n      ? *m\n      : minCount: 1\n",
)] + [
    "profile: &p x\nprefixes: &px\n  ex: http://example.org/ns#\n  ey: *p\nviolation: &vs [v]\nwarning: *vs\nvalidations:\n  v:\n    targetClass: ex.T\n    message: m\n    propertyConstraints:\n      ex.p:\n        minCount: 1\n",
    "&root\nprofile: x\nvalidations: *root\n",
    "&root\nprofile: x\nviolation: [v]\nvalidations:\n  v: *root\n",
]
