"""C18 - the CLI emits exactly the library's output, to stdout or to the file."""
import json
import os
import re
import shutil
import subprocess
import time
from concurrent.futures import ThreadPoolExecutor

import c09
import c15
import corpus
import vlib

MC_CFG = "SPECIFICATION Spec\nCONSTANTS\n  Truncate = %s\n  MaxSteps = %d\nINVARIANTS FileIsExactlyTheReport StdoutIsExactlyTheReport FailuresPrintNoReport ReportOnlyFromValidate OtherCommandsExit%s\nPROPERTIES OnlyValidateToFileWrites\nCHECK_DEADLOCK FALSE\n"

# embedded Rego next to declarative constraints that draw generated identifiers
REGO_PROFILE = """#%Validation Profile 1.0
profile: with embedded rego
prefixes:
  ex: http://example.org/ns#
violation:
  - r1
  - d1
validations:
  r1:
    targetClass: ex.T
    message: custom check
    rego: |
      v = object.get($node, "http://example.org/ns#p", "")
      $result = (v != "forbidden")
  d1:
    targetClass: ex.T
    message: declarative next to it
    propertyConstraints:
      ex.child / ex.q:
        minCount: 1
      ex.q:
        pattern: ^ok$
"""
PAIRS = {
    # one line of more than 1 MiB (minified graph)
    1: (corpus.OK_PROFILE, json.dumps([corpus.node(i, p="v" * 40, q="ok") for i in range(9000)])),
    # percent signs in the message and in a node id: the output must not be treated as a format string
    2: (REGO_PROFILE.replace("declarative next to it", "100% of p is required %s %d %v"),
        c09.DOCS["fail1"].replace("http://example.org/n1", "http://example.org/my%20node%n1")),
    3: (c15.RICH_PROFILE, c15.RICH_DATA),
}
FAILING = [(corpus.OK_PROFILE, c09.DOCS["notJson"]), (corpus.OK_PROFILE, ""), (corpus.PARSE_ERROR_PROFILES[2], c09.DOCS["pass"]),
           (corpus.GEN_ERROR_PROFILES[0], c09.DOCS["pass"]), (corpus.OK_PROFILE, c09.DOCS["ldReject"]),
           (corpus.REGO_ERROR_PROFILES[0], c09.DOCS["pass"])]
OTHERS = {"generate", "normalize", "compile", "help", "unknownCommand", "validateOneArg", "validateFourArgs", "generateNoArg",
          "generateTwoArgs", "normalizeTwoArgs", "compileNoArg", "missingProfile", "missingData", "generateBroken",
          "normalizeBroken", "compileBroken"}
DATE = re.compile(rb'"dateCreated": "[^"]*"')


def mask(b):
    return DATE.sub(b'"dateCreated": "MASKED"', b)


def looks_like_report(b):
    return b'"doc:encodes"' in b or b'"conforms"' in b


def run(tier):
    t0 = time.time()
    V = vlib.Verdict("C18")
    rnd = vlib.rng(18)
    quick = tier == "quick"
    steps = 3 if quick else 4
    mc = vlib.run_tlc("cli", "Cli", MC_CFG % ("TRUE", 4, ""), workers=4, timeout=600)
    vlib.tlc_must_pass(mc, "Cli design model")
    neg = vlib.run_tlc("cli_neg", "Cli", MC_CFG % ("FALSE", 3, ""), workers=4, timeout=300)
    if neg.violated != "FileIsExactlyTheReport":
        raise vlib.Infra("negative control (open without truncate) not refuted: %s %s" % (neg.violated, neg.error))
    if quick:
        gen = vlib.run_tlc("cli_hist", "CliHist", MC_CFG % ("TRUE", steps, " EmitHist"), workers=4, timeout=900)
    else:       # 31^4 histories: simulated behaviours instead of the full enumeration
        gen = vlib.run_tlc("cli_hist", "CliHist", MC_CFG % ("TRUE", steps, " EmitHist"), workers=1, timeout=900,
                           simulate="num=20000", depth=steps + 1, seed_=vlib.seed())
    vlib.tlc_must_pass(gen, "CliHist")
    hists = vlib.cases_from_prints(gen)
    hists = sorted(hists, key=lambda h: json.dumps(h))
    rnd.shuffle(hists)
    total = len(hists)
    hists = hists[: (220 if quick else 6000)]
    acv = vlib.build_cli()
    # reference outputs from the library (fresh process)
    ref_rows = [{"id": "pair%d" % i, "op": "validate", "profile": p, "data": d} for i, (p, d) in PAIRS.items()] + \
               [{"id": "policy%d" % i, "op": "generate", "profile": p, "data": ""} for i, (p, d) in PAIRS.items()] + \
               [{"id": "normalized%d" % i, "op": "normalize", "profile": "", "data": d} for i, (p, d) in PAIRS.items()]
    gen_profiles = [corpus.OK_PROFILE, corpus.OK_PROFILE_NESTED, c15.RICH_PROFILE, REGO_PROFILE,
                    corpus.OK_PROFILE.replace("p is required", "no rego here, only the word")] + [p for p, _, _ in corpus.fixture_pairs()[:: (12 if quick else 2)]]
    numeric = json.dumps([{"@id": "http://example.org/num", "@type": ["http://example.org/ns#T"]}])[:-2] + \
        ', "http://example.org/ns#a": 1.0, "http://example.org/ns#b": 1e2, "http://example.org/ns#c": 0.10, ' \
        '"http://example.org/ns#d": 12345678901234567890, "http://example.org/ns#e": -0.0, "http://example.org/ns#f": 1E-7, ' \
        '"http://example.org/ns#g": [2.50, 100, 1.0e+3]}]'
    long_line = json.dumps([corpus.node(i, p="v" * 40, q="ok") for i in range(9000)])     # > 1 MiB on a single line
    norm_docs = [c09.DOCS["pass"], c09.DOCS["fail3"], c15.RICH_DATA, "{}", numeric, long_line] + [d for _, d, _ in corpus.fixture_pairs()[:: (15 if quick else 3)] if len(d) < 300000]
    refs = {}
    for r in vlib.run_harness("libout", ref_rows, "c18_ref", shards=1):
        if r.get("err"):
            raise vlib.Infra("library fails on a reference pair: %s" % r["err"])
        refs[r["id"]] = r["out"].encode()
    sizes = sorted(len(v) for k, v in refs.items() if k.startswith("pair"))
    if len(set(sizes)) != 3:
        raise vlib.Infra("reference reports must have three different lengths: %s" % sizes)
    junk = {0: b"", 1: b"short junk", 6: b"J" * (sizes[-1] * 3 + 1000)}
    root = os.path.join(vlib.BUILD, "cli")
    shutil.rmtree(root, ignore_errors=True)
    os.makedirs(root)
    files = {}
    for i, (p, d) in PAIRS.items():
        files[i] = (os.path.join(root, "p%d.yaml" % i), os.path.join(root, "d%d.jsonld" % i))
        open(files[i][0], "w").write(p)
        open(files[i][1], "w").write(d)
    fail_files = []
    for k, (p, d) in enumerate(FAILING):
        pf, df = os.path.join(root, "fp%d.yaml" % k), os.path.join(root, "fd%d.jsonld" % k)
        open(pf, "w").write(p)
        open(df, "w").write(d)
        fail_files.append((pf, df))

    def rd(path):
        return open(path, "rb").read() if os.path.isfile(path) else ("DIR" if os.path.isdir(path) else None)

    def replay_history(hi):
        h = hists[hi]
        d = os.path.join(root, "h%05d" % hi)
        os.makedirs(d)
        out = os.path.join(d, "out.json")
        prev = "absent"
        for si, st in enumerate(h):
            op = st["op"]
            if op == "remove":
                if os.path.isdir(out):
                    os.rmdir(out)
                else:
                    os.remove(out)
                prev = "absent"
                continue
            if op == "mkdir":
                os.mkdir(out)
                prev = "directory"
                continue
            if op == "litter":
                for name in ("out.json.tmp", "out.json~", "out.json.bak", "out.json.part", ".out.json.swp", "out.json.new", "out.tmp"):
                    open(os.path.join(d, name), "wb").write(junk[6])
                continue
            if op == "overwrite":
                open(out, "wb").write(junk[st["pair"]])
                prev = {0: "empty", 1: "shorter", 6: "longer"}[st["pair"]]
                continue
            if op in ("validateToFile", "validateToStdout"):
                pf, df = files[st["pair"]]
                args = [acv, "validate", pf, df] + ([out] if op == "validateToFile" else [])
                before = rd(out)
                pr = subprocess.run(args, capture_output=True, timeout=120)
                want = mask(refs["pair%d" % st["pair"]])
                if prev == "directory" and op == "validateToFile":
                    if pr.returncode == 0 or looks_like_report(pr.stdout):
                        return ("output path is a directory but the run does not fail", h, si, "")
                    continue
                if pr.returncode != 0:
                    return ("validate exits %d on valid input" % pr.returncode, h, si, pr.stderr[-300:].decode(errors="replace"))
                if op == "validateToFile":
                    got = mask(open(out, "rb").read()) if os.path.exists(out) else None
                    if got != want:
                        how = "missing" if got is None else ("keeps old content after the report" if got.startswith(want) else "differs")
                        return ("output file %s (previous content: %s)" % (how, prev), h, si, "")
                    if looks_like_report(pr.stdout):
                        return ("report printed to stdout although an output path was given", h, si, "")
                    prev = "report%d" % st["pair"]
                else:
                    if mask(pr.stdout) not in (want, want + b"\n"):
                        return ("stdout is not the library's report", h, si, pr.stdout[:200].decode(errors="replace"))
                    after = rd(out)
                    if after != before:
                        return ("validate without output path changed the file", h, si, "")
                continue
            if op in OTHERS:
                before = rd(out)
                pf, df = files[st["pair"] or 1]
                bpf, bdf = fail_files[2][0], fail_files[0][1]       # unparsable profile text, data that is not JSON
                rpf = fail_files[5][0]                              # profile whose Rego does not compile
                missing = os.path.join(d, "no-such-file")
                args = {"generate": ["generate", pf], "normalize": ["normalize", df], "compile": ["compile", files[1][0]], "help": ["help"],
                        "unknownCommand": ["frobnicate", pf, df], "validateOneArg": ["validate", pf],
                        "validateFourArgs": ["validate", pf, df, out, out], "generateNoArg": ["generate"],
                        "generateTwoArgs": ["generate", pf, df], "normalizeTwoArgs": ["normalize", df, out],
                        "compileNoArg": ["compile"], "missingProfile": ["validate", missing, df],
                        "missingData": ["validate", pf, missing, out], "generateBroken": ["generate", bpf],
                        "normalizeBroken": ["normalize", bdf], "compileBroken": ["compile", rpf]}[op]
                pr = subprocess.run([acv] + args, capture_output=True, timeout=120)
                if rd(out) != before:
                    return ("acv %s changed the output path of an earlier run" % args[0], h, si, "")
                if op in ("generate", "normalize"):
                    want = refs[("policy%d" if op == "generate" else "normalized%d") % st["pair"]]
                    if pr.returncode != 0 or pr.stdout not in (want, want + b"\n"):
                        return ("acv %s output differs from the library's" % op, h, si, pr.stdout[:200].decode(errors="replace"))
                elif op in ("compile", "help"):
                    if pr.returncode != 0 or looks_like_report(pr.stdout):
                        return ("acv %s: exit %d / report on stdout" % (op, pr.returncode), h, si, pr.stderr[-200:].decode(errors="replace"))
                else:
                    if pr.returncode == 0 or looks_like_report(pr.stdout):
                        return ("failing invocation (%s) exits %d or prints a report" % (op, pr.returncode), h, si, "")
                continue
            # failing runs
            pf, df = fail_files[(hi + si) % len(fail_files)]
            before = rd(out)
            args = [acv, "validate", pf, df] + ([out] if op == "failToFile" else [])
            pr = subprocess.run(args, capture_output=True, timeout=120)
            after = rd(out)
            if pr.returncode == 0:
                return ("exit status 0 for input the library rejects", h, si, "input %d" % ((hi + si) % len(fail_files)))
            if looks_like_report(pr.stdout):
                return ("a report is printed for input the library rejects", h, si, "")
            if after not in (None, "DIR") and looks_like_report(after) and after != before:
                return ("a report is written to the file for input the library rejects", h, si, "")
        shutil.rmtree(d, ignore_errors=True)
        return None

    with ThreadPoolExecutor(max_workers=vlib.NCPU) as ex:
        results = list(ex.map(replay_history, range(len(hists))))
    for res in results:
        if res:
            V.disagree(res[0], {"history": res[1], "failing_step": res[2], "detail": res[3]})
    # generate / normalize / unwritable path / argument handling
    other = 0
    lo_rows = [{"id": "g%d" % i, "op": "generate", "profile": p, "data": ""} for i, p in enumerate(gen_profiles)] + \
              [{"id": "n%d" % i, "op": "normalize", "profile": "", "data": d} for i, d in enumerate(norm_docs)]
    # one library process per row so that each generate runs under fresh-process conditions
    lo = {r["id"]: r for r in vlib.run_harness("libout", lo_rows, "c18_lo", shards=vlib.NCPU)}
    for row in lo_rows:
        f = os.path.join(root, row["id"] + (".yaml" if row["op"] == "generate" else ".jsonld"))
        open(f, "w").write(row["profile"] if row["op"] == "generate" else row["data"])
        pr = subprocess.run([acv, row["op"], f], capture_output=True, timeout=120)
        other += 1
        ref = lo[row["id"]]
        if ref.get("err"):
            if pr.returncode == 0:
                V.disagree("acv %s exits 0 for input the library rejects" % row["op"], {"input": row, "library_error": ref["err"]})
            continue
        want = ref["out"].encode()
        if pr.returncode != 0 or pr.stdout not in (want, want + b"\n"):
            V.disagree("acv %s output differs from the library's" % row["op"],
                       {"input": {k: row[k][:2000] for k in ("op", "profile", "data")}, "exit": pr.returncode,
                        "stdout_head": pr.stdout[:300].decode(errors="replace"), "library_head": ref["out"][:300]})
    # texts whose class nobody is asked to know: whatever the library makes of them (a report or an error), the tool makes
    # the same of them -- a byte order mark, a second JSON value, a bare scalar, CR LF line ends, a very large document
    edge = {"bom": "\ufeff" + c09.DOCS["fail3"], "second-value": c09.DOCS["fail3"] + "\n{}\n", "scalar": '"just a string"',
            "crlf": json.dumps(json.loads(c09.DOCS["fail3"]), indent=2).replace("\n", "\r\n"),
            "big": json.dumps([corpus.node(i, q="toolong") for i in range(1, 4)])[:-1] + " " * (17 * 1024 * 1024) + "]",
            "bom-profile": c09.DOCS["fail3"]}
    erows = [{"id": "edge-" + k, "op": "validate", "profile": ("\ufeff" if k == "bom-profile" else "") + corpus.OK_PROFILE, "data": d}
             for k, d in sorted(edge.items())]
    elib = {r["id"]: r for r in vlib.run_harness("libout", erows, "c18_edge", shards=len(erows))}
    for row in erows:
        pf_, df_ = os.path.join(root, row["id"] + ".yaml"), os.path.join(root, row["id"] + ".jsonld")
        open(pf_, "w").write(row["profile"])
        open(df_, "w").write(row["data"])
        pr = subprocess.run([acv, "validate", pf_, df_], capture_output=True, timeout=300)
        other += 1
        ref = elib[row["id"]]
        if ref.get("err"):
            if pr.returncode == 0 or looks_like_report(pr.stdout):
                V.disagree("acv validate prints a report / exits 0 for input the library rejects (%s)" % row["id"], {"library_error": ref["err"][:300]})
        elif pr.returncode != 0 or mask(pr.stdout) not in (mask(ref["out"].encode()), mask(ref["out"].encode()) + b"\n"):
            V.disagree("acv validate differs from the library on input the library accepts (%s)" % row["id"],
                       {"exit": pr.returncode, "stdout_head": pr.stdout[:300].decode(errors="replace"), "stderr_tail": pr.stderr[-300:].decode(errors="replace")})
    pf, df = files[2]
    pr = subprocess.run([acv, "validate", pf, df, os.path.join(root, "no-such-dir", "out.json")], capture_output=True, timeout=120)
    other += 1
    if pr.returncode == 0 or looks_like_report(pr.stdout):
        V.disagree("unwritable output path is not reported as a failure", {"exit": pr.returncode})
    for args in ([acv, "validate", pf], [acv, "generate"], [acv, "normalize", pf, df], [acv, "validate", pf, os.path.join(root, "missing.jsonld")]):
        pr = subprocess.run(args, capture_output=True, timeout=120)
        other += 1
        if pr.returncode == 0 or looks_like_report(pr.stdout):
            V.disagree("wrong arguments are not reported as a failure", {"args": args[1:], "exit": pr.returncode})
    rc = V.finish()
    shutil.rmtree(root, ignore_errors=True)
    vlib.write_evidence("C18", tier, {
        "states": mc.distinct + gen.distinct, "transitions": mc.generated + gen.generated,
        "traces_validated_against_impl": len(hists),
        "evaluations": len(hists) * steps + other, "distinct_nontrivial": len(hists),
        "rule": "Cli.tla model-checked (file state machine: validate to file / to stdout for 3 input pairs with reports of "
                "different length, failing runs, external remove, overwrite with empty / shorter / longer content, litter next to "
                "the path, path is a directory, and the other subcommands - generate, normalize, compile, help, unknown command, "
                "wrong argument counts, missing or broken input files - as steps of the same histories; histories of "
                "<= 4 steps; refuted for open-without-truncate); %d of the %d histories of exactly %d steps enumerated by TLC "
                "replayed with the real `acv` binary built from /repo/cmd, comparing file bytes / stdout with the library's "
                "report obtained in a separate process (dateCreated value masked on both sides, one trailing newline allowed); "
                "plus generate (%d profiles) and normalize (%d documents) against the library, unwritable path and argument "
                "errors; distinct = distinct histories" % (len(hists), total, steps, len(gen_profiles), len(norm_docs)),
        "exhaustive": len(hists) == total,
        "samples": [hists[i] for i in range(0, len(hists), max(1, len(hists) // 4))][:4],
        "checker_cmd": mc.cmd, "negative_control": "Truncate = FALSE -> FileIsExactlyTheReport violated",
        "known_findings_hit": sorted(V.known_hits),
    }, time.time() - t0, violations=len(V.violations),
        assumptions=["read-only targets cannot be exercised as root; the unwritable state is a path whose parent does not exist"])
    return rc


def replay(path):
    print(json.dumps(json.load(open(path)), indent=1)[:3000])
    return run("quick")
