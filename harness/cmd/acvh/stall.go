package main

import (
	"encoding/json"
	"fmt"
	"time"

	"github.com/aml-org/amf-custom-validator/pkg"
	"github.com/aml-org/amf-custom-validator/pkg/config"
	e "github.com/aml-org/amf-custom-validator/pkg/events"
	"github.com/open-policy-agent/opa/rego"
)

// stall: call A is given an unbuffered event channel whose listener stops listening after k events (so A comes to rest
// inside the dispatch of event k), for every k; while A rests there, call B (no channel) is made from another
// goroutine.  C10: B returns exactly what it returns alone -- in particular it returns -- wherever A rests; then A is
// released and must return its solo value too.  (ACVSched: the steps of one call are never enabled or disabled by the
// position of another call.)
type stallCase struct {
	ID      string `json:"id"`
	Profile string `json:"profile"`
	DocA    string `json:"docA"`
	DocB    string `json:"docB"`
}

type stallPoint struct {
	K      int    `json:"k"`
	Event  string `json:"event"` // last event A's listener received before it stopped ("" for k = 0)
	BDone  bool   `json:"bDone"`
	BSame  bool   `json:"bSame"`
	ADone  bool   `json:"aDone"`
	ASame  bool   `json:"aSame"`
	Detail string `json:"detail,omitempty"`
}

type stallObs struct {
	ID      string       `json:"id"`
	NEvents int          `json:"nEvents"`
	Skipped string       `json:"skipped,omitempty"`
	Points  []stallPoint `json:"points"`
}

func sameOutcome(a, b outcome) bool { return a.kind == b.kind && a.report == b.report && a.err == b.err }

func runStall(c stallCase) stallObs {
	obs := stallObs{ID: c.ID, Points: []stallPoint{}}
	cfg := config.DefaultReportConfiguration()
	call := func(doc string, ch *chan e.Event) func() (string, *rego.PreparedEvalQuery, error) {
		return func() (string, *rego.PreparedEvalQuery, error) {
			r, err := pkg.ValidateWithConfiguration(c.Profile, doc, false, ch, clockA, cfg)
			return r, nil, err
		}
	}
	t0 := time.Now()
	soloA := guarded(call(c.DocA, nil))
	tA := time.Since(t0)
	soloB := guarded(call(c.DocB, nil))
	if soloA.kind == "timeout" || soloB.kind == "timeout" {
		obs.Skipped = "a solo call did not return"
		return obs
	}
	// number of events of A
	{
		ch := make(chan e.Event, 256)
		guarded(call(c.DocA, &ch))
		n := 0
		for {
			select {
			case _, ok := <-ch:
				if ok {
					n++
					continue
				}
			default:
			}
			break
		}
		obs.NEvents = n
	}
	for k := 0; k < obs.NEvents; k++ {
		p := stallPoint{K: k}
		ch := make(chan e.Event)
		gate := make(chan struct{})
		last := make(chan string, 1)
		go func() { // A's listener: k events, then nothing until the gate opens, then the rest
			name := ""
			for i := 0; i < k; i++ {
				ev, ok := <-ch
				if !ok {
					break
				}
				name = fmt.Sprint(ev)
			}
			last <- name
			<-gate
			for range ch {
			}
		}()
		ares := make(chan outcome, 1)
		go func() { ares <- guarded(call(c.DocA, &ch)) }()
		p.Event = <-last
		// A now runs on to its next dispatch and rests there; its solo duration bounds the time that takes
		time.Sleep(3*tA + 30*time.Millisecond)
		b := guarded(call(c.DocB, nil))
		p.BDone = b.kind != "timeout"
		p.BSame = sameOutcome(b, soloB)
		if !p.BDone {
			p.Detail = "B did not return while A rested in the dispatch of event " + fmt.Sprint(k)
		} else if !p.BSame {
			p.Detail = fmt.Sprintf("B alone: %s %.120s | B with A resting: %s %.120s", soloB.kind, soloB.err, b.kind, b.err)
		}
		close(gate)
		select {
		case a := <-ares:
			p.ADone = a.kind != "timeout"
			p.ASame = sameOutcome(a, soloA)
		case <-time.After(2 * watchdog):
		}
		obs.Points = append(obs.Points, p)
		if !p.BDone || !p.ADone {
			break // the process holds blocked goroutines from here on
		}
	}
	return obs
}

func init() {
	commands["stall"] = func(args []string) error {
		if len(args) != 2 {
			return fmt.Errorf("usage: acvh stall <in.ndjson> <out.ndjson>")
		}
		w, err := newNDWriter(args[1])
		if err != nil {
			return err
		}
		if err := readLines(args[0], func(b []byte) error {
			var c stallCase
			if err := json.Unmarshal(b, &c); err != nil {
				return err
			}
			return w.write(runStall(c))
		}); err != nil {
			return err
		}
		return w.close()
	}
}
