// acvh is the conformance harness that binds the TLA+ specifications under
// /verif/spec to the real amf-custom-validator code.  It contains renderers
// (abstract case -> concrete texts) and projections (concrete results ->
// abstract records) only; every expectation comes from the specification.
package main

import (
	"bufio"
	"encoding/json"
	"fmt"
	"os"
)

type cmdFn func(args []string) error

var commands = map[string]cmdFn{}

func main() {
	if len(os.Args) < 2 {
		fmt.Fprintln(os.Stderr, "usage: acvh <command> [args]")
		os.Exit(2)
	}
	fn, ok := commands[os.Args[1]]
	if !ok {
		fmt.Fprintf(os.Stderr, "unknown command %s\n", os.Args[1])
		os.Exit(2)
	}
	if os.Args[1] != "builtins" && os.Getenv("ACVH_NO_WARMUP") == "" {
		warmup()
	}
	err := fn(os.Args[2:])
	for _, f := range []string{ctxFile, rtCtxFile} {
		if f != "" {
			os.Remove(f) // scratch context files of the renderers
		}
	}
	if err != nil {
		fmt.Fprintln(os.Stderr, "acvh:", err)
		os.Exit(2)
	}
}

// readNDJSON decodes one JSON value per line into out (a pointer to a slice element type factory).
func readLines(path string, each func(line []byte) error) error {
	f, err := os.Open(path)
	if err != nil {
		return err
	}
	defer f.Close()
	sc := bufio.NewScanner(f)
	sc.Buffer(make([]byte, 1<<20), 1<<28)
	for sc.Scan() {
		b := sc.Bytes()
		if len(b) == 0 {
			continue
		}
		cp := make([]byte, len(b))
		copy(cp, b)
		if err := each(cp); err != nil {
			return err
		}
	}
	return sc.Err()
}

type ndWriter struct {
	f *os.File
	w *bufio.Writer
}

func newNDWriter(path string) (*ndWriter, error) {
	f, err := os.Create(path)
	if err != nil {
		return nil, err
	}
	return &ndWriter{f: f, w: bufio.NewWriterSize(f, 1<<20)}, nil
}

func (n *ndWriter) write(v any) error {
	b, err := json.Marshal(v)
	if err != nil {
		return err
	}
	n.w.Write(b)
	return n.w.WriteByte('\n')
}

func (n *ndWriter) close() error {
	if err := n.w.Flush(); err != nil {
		return err
	}
	return n.f.Close()
}
