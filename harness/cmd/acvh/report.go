package main

import (
	"encoding/json"
	"fmt"
	"sort"
	"strings"
	"time"

	"github.com/aml-org/amf-custom-validator/pkg"
	"github.com/aml-org/amf-custom-validator/pkg/config"
	"gopkg.in/yaml.v3"
)

// report: renders an abstract C03 scenario (spec/ReportCases.tla), runs the
// configured entry points and projects the report header and result list.
type rpProfile struct {
	Name    string              `json:"name"`
	Listed  map[string][]string `json:"listed"`
	Defined []string            `json:"defined"`
	Fails   map[string][]string `json:"fails"`
}

type rpCfg struct {
	IncludeDate bool   `json:"includeDate"`
	Clock       string `json:"clock"`
	Schema      string `json:"schema"`
}

type rpCase struct {
	ID      string    `json:"id"`
	Profile rpProfile `json:"profile"`
	Cfg     rpCfg     `json:"cfg"`
	Variant int       `json:"variant"`
}

type rpResult struct {
	Severity string `json:"severity"`
	Name     string `json:"name"`
	Focus    string `json:"focus"`
}

type rpProj struct {
	Err              string     `json:"err,omitempty"`
	Conforms         bool       `json:"conforms"`
	HasResultKey     bool       `json:"hasResultKey"`
	Results          []rpResult `json:"results"`
	ProfileName      string     `json:"profileName"`
	Date             string     `json:"date"`
	Schema           string     `json:"schema"`
	HasLexicalSchema bool       `json:"hasLexicalSchema"`
	Valid            string     `json:"valid,omitempty"` // structural problems of the document
}

type rpObs struct {
	ID       string `json:"id"`
	Validate rpProj `json:"validate"`
	Compiled rpProj `json:"compiled"`
}

const altReportSchema = "https://example.org/schemas/report.yaml"
const altLexicalSchema = "https://example.org/schemas/lexical.yaml"

// the concrete spelling of the abstract validation names a, b, ghost: text that looks like a YAML comment when the
// quoting is ignored, so that two profiles may differ in nothing but the characters after " #"
// The name that is never defined ("ghost") is spelt like the defined name a in another letter case.
func rpName(v string) string {
	if v == "ghost" {
		return "RULE #A"
	}
	return "rule #" + v
}

func renderRpProfile(c rpCase) string {
	doc := map[string]any{"profile": c.Profile.Name, "prefixes": map[string]any{"ex": exNS}}
	vals := map[string]any{}
	for _, v := range c.Profile.Defined {
		vals[rpName(v)] = map[string]any{"targetClass": "ex.T", "message": "validation " + v,
			"propertyConstraints": map[string]any{"ex.has-" + v: map[string]any{"minCount": 1}}}
	}
	doc["validations"] = vals
	for _, l := range []string{"violation", "warning", "info"} {
		names := append([]string{}, c.Profile.Listed[l]...)
		sort.Strings(names)
		if c.Variant%2 == 1 { // order of a level list is spelling
			for i, j := 0, len(names)-1; i < j; i, j = i+1, j-1 {
				names[i], names[j] = names[j], names[i]
			}
		}
		if len(names) == 0 && c.Variant%4 < 2 {
			continue // level key absent
		}
		arr := []any{}
		for _, n := range names {
			arr = append(arr, rpName(n))
		}
		doc[l] = arr
	}
	b, _ := yaml.Marshal(doc)
	return "#%Validation Profile 1.0\n" + string(b)
}

func renderRpData(c rpCase) string {
	var graph []any
	for _, n := range []string{"n1", "n2"} {
		node := map[string]any{"@id": nodeNS + n, "@type": []any{exNS + "T"}}
		for _, v := range []string{"a", "b", "ghost"} {
			failing := false
			for _, f := range c.Profile.Fails[v] {
				if f == n {
					failing = true
				}
			}
			if !failing {
				node[exNS+"has-"+v] = []any{map[string]any{"@value": "present"}}
			}
		}
		graph = append(graph, node)
	}
	b, _ := json.Marshal(graph)
	return string(b)
}

func projectRp(rep string, err error, cfg config.ReportConfiguration) rpProj {
	p := rpProj{Results: []rpResult{}}
	if err != nil {
		p.Err = err.Error()
		return p
	}
	dec := json.NewDecoder(strings.NewReader(rep))
	var doc []map[string]any
	if e := dec.Decode(&doc); e != nil {
		p.Valid = "not a JSON array: " + e.Error()
		return p
	}
	if dec.More() {
		p.Valid = "trailing content after the JSON document"
	}
	if len(doc) != 1 {
		p.Valid = "not exactly one dialect instance"
		return p
	}
	enc, _ := doc[0]["doc:encodes"].([]any)
	if len(enc) != 1 {
		p.Valid = "doc:encodes does not hold exactly one node"
		return p
	}
	node, _ := enc[0].(map[string]any)
	p.Conforms, _ = node["conforms"].(bool)
	p.ProfileName, _ = node["profileName"].(string)
	if d, ok := node["dateCreated"]; ok {
		p.Date, _ = d.(string)
	} else {
		p.Date = "none"
	}
	res, has := node["result"]
	p.HasResultKey = has
	if arr, ok := res.([]any); ok {
		for _, r := range arr {
			m, _ := r.(map[string]any)
			sev, _ := m["resultSeverity"].(string)
			name, _ := m["sourceShapeName"].(string)
			if name == "RULE #A" {
				name = "ghost"
			}
			name = strings.TrimPrefix(name, "rule #")
			focus, _ := m["focusNode"].(string)
			p.Results = append(p.Results, rpResult{strings.TrimPrefix(sev, "http://www.w3.org/ns/shacl#"), name, strings.TrimPrefix(focus, nodeNS)})
		}
	}
	sort.Slice(p.Results, func(i, j int) bool {
		a, b := p.Results[i], p.Results[j]
		return a.Severity+"|"+a.Name+"|"+a.Focus < b.Severity+"|"+b.Name+"|"+b.Focus
	})
	ctx, _ := doc[0]["@context"].(map[string]any)
	rs, _ := ctx["reportSchema"].(string)
	ls, hasLs := ctx["lexicalSchema"].(string)
	def := config.DefaultReportConfiguration()
	// the lexical schema only appears in the context of a report that has results
	repAlt := rs == altReportSchema+"#/declarations/"
	lexAlt := hasLs && ls == altLexicalSchema+"#/declarations/"
	repNone := rs == "#/declarations/"
	lexNone := hasLs && ls == "#/declarations/"
	known := (repAlt || repNone || rs == def.ReportSchemaIri+"#/declarations/") && (!hasLs || lexAlt || lexNone || ls == def.LexicalSchemaIri+"#/declarations/")
	switch {
	case !known:
		p.Schema = "other:" + rs + "|" + ls
	case repNone && (lexNone || !hasLs):
		p.Schema = "none"
	case repNone && !lexAlt:
		p.Schema = "noRep"
	case lexNone && !repAlt:
		p.Schema = "noLex"
	case repAlt && (lexAlt || !hasLs):
		p.Schema = "alt"
	case repAlt:
		p.Schema = "altRep"
	case lexAlt:
		p.Schema = "altLex"
	default:
		p.Schema = "default"
	}
	p.HasLexicalSchema = hasLs
	return p
}

// literalReportConfig rebuilds a configuration field by field, the way a caller that does not start from
// DefaultReportConfiguration() writes it (js/validator.go does)
func literalReportConfig(d config.ReportConfiguration) config.ReportConfiguration {
	return config.ReportConfiguration{IncludeReportCreationTime: d.IncludeReportCreationTime,
		ReportSchemaIri: d.ReportSchemaIri, LexicalSchemaIri: d.LexicalSchemaIri}
}

func runReport(c rpCase) (o rpObs) {
	o.ID = c.ID
	prof := renderRpProfile(c)
	data := renderRpData(c)
	t, err := time.Parse(time.RFC3339, c.Cfg.Clock)
	if err != nil {
		panic(err)
	}
	clock := fixedClock{t}
	cfg := config.DefaultReportConfiguration()
	cfg.IncludeReportCreationTime = c.Cfg.IncludeDate
	switch c.Cfg.Schema {
	case "alt":
		cfg.ReportSchemaIri, cfg.LexicalSchemaIri = altReportSchema, altLexicalSchema
	case "altLex":
		cfg.LexicalSchemaIri = altLexicalSchema
	case "altRep":
		cfg.ReportSchemaIri = altReportSchema
	case "none":
		cfg.ReportSchemaIri, cfg.LexicalSchemaIri = "", ""
	case "noRep":
		cfg.ReportSchemaIri = ""
	case "noLex":
		cfg.LexicalSchemaIri = ""
	}
	func() {
		defer func() {
			if r := recover(); r != nil {
				o.Validate = rpProj{Err: fmt.Sprint("panic: ", r), Results: []rpResult{}}
			}
		}()
		vcfg := cfg
		if c.Variant >= 2 {
			vcfg = literalReportConfig(cfg) // a configuration built as a struct literal is the same configuration
		}
		rep, err := pkg.ValidateWithConfiguration(prof, data, false, nil, clock, vcfg)
		o.Validate = projectRp(rep, err, cfg)
	}()
	func() {
		defer func() {
			if r := recover(); r != nil {
				o.Compiled = rpProj{Err: fmt.Sprint("panic: ", r), Results: []rpResult{}}
			}
		}()
		h, err := pkg.CompileProfile(prof, false, nil)
		if err != nil {
			o.Compiled = projectRp("", err, cfg)
			return
		}
		rep, err := pkg.ValidateCompiledWithConfiguration(h, data, false, nil, clock, cfg)
		o.Compiled = projectRp(rep, err, cfg)
	}()
	return
}

func init() {
	commands["report"] = func(args []string) error {
		if len(args) != 2 {
			return fmt.Errorf("usage: acvh report <in.ndjson> <out.ndjson>")
		}
		w, err := newNDWriter(args[1])
		if err != nil {
			return err
		}
		if err := readLines(args[0], func(b []byte) error {
			var c rpCase
			if err := json.Unmarshal(b, &c); err != nil {
				return err
			}
			return w.write(runReport(c))
		}); err != nil {
			return err
		}
		return w.close()
	}
}
