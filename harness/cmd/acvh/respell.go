package main

import (
	"bytes"
	"encoding/json"
	"fmt"
	"math/rand"
	"reflect"
	"regexp"
	"sort"
	"strings"

	"github.com/aml-org/amf-custom-validator/pkg"
	"github.com/aml-org/amf-custom-validator/pkg/config"
	"gopkg.in/yaml.v3"
)

// respell: applies a walk of meaning-preserving rewrites (spec/Profile.tla)
// to the YAML text of a real profile through yaml.v3 node manipulation,
// validates the data with the rewritten profile and projects conforms and the
// (severity, validation, focus, message) set.
type rwOp struct {
	Op  string `json:"op"`
	Arg int    `json:"arg"`
}

type rsplCase struct {
	ID      string `json:"id"`
	Profile string `json:"profile"`
	Data    string `json:"data"`
	Walk    []rwOp `json:"walk"`
	Seed    int64  `json:"seed"`
}

type rsplObs struct {
	ID        string   `json:"id"`
	Err       string   `json:"err,omitempty"`
	RewriteEr string   `json:"rewriteErr,omitempty"`
	Conforms  bool     `json:"conforms"`
	Results   []string `json:"results"`
	Text      string   `json:"text,omitempty"`
	Applied   []string `json:"applied"`
}

var builtinPrefixes = map[string]string{
	"data": "http://a.ml/vocabularies/data#", "shacl": "http://www.w3.org/ns/shacl#", "shapes": "http://a.ml/vocabularies/shapes#",
	"raml-shapes": "http://a.ml/vocabularies/shapes#", "doc": "http://a.ml/vocabularies/document#",
	"meta": "http://a.ml/vocabularies/meta#", "apiContract": "http://a.ml/vocabularies/apiContract#",
	"core": "http://a.ml/vocabularies/core#", "xsd": "http://www.w3.org/2001/XMLSchema#",
	"security": "http://a.ml/vocabularies/security#", "apiExt": "http://a.ml/vocabularies/api-extension#",
}

func permute(n int, arg int, rnd *rand.Rand) []int {
	idx := make([]int, n)
	for i := range idx {
		idx[i] = i
	}
	switch arg {
	case 1:
		for i, j := 0, n-1; i < j; i, j = i+1, j-1 {
			idx[i], idx[j] = idx[j], idx[i]
		}
	case 2:
		if n > 1 {
			idx = append(idx[1:], idx[0])
		}
	default:
		rnd.Shuffle(n, func(i, j int) { idx[i], idx[j] = idx[j], idx[i] })
	}
	return idx
}

func permuteMapping(m *yaml.Node, arg int, rnd *rand.Rand) {
	if m == nil || m.Kind != yaml.MappingNode {
		return
	}
	n := len(m.Content) / 2
	idx := permute(n, arg, rnd)
	out := make([]*yaml.Node, 0, len(m.Content))
	for _, i := range idx {
		out = append(out, m.Content[2*i], m.Content[2*i+1])
	}
	m.Content = out
}

func permuteSeq(s *yaml.Node, arg int, rnd *rand.Rand) {
	if s == nil || s.Kind != yaml.SequenceNode {
		return
	}
	idx := permute(len(s.Content), arg, rnd)
	out := make([]*yaml.Node, 0, len(s.Content))
	for _, i := range idx {
		out = append(out, s.Content[i])
	}
	s.Content = out
}

func mget(m *yaml.Node, key string) *yaml.Node {
	if m == nil || m.Kind != yaml.MappingNode {
		return nil
	}
	for i := 0; i+1 < len(m.Content); i += 2 {
		if m.Content[i].Value == key {
			return m.Content[i+1]
		}
	}
	return nil
}

// visit calls f(key, value, parentMapping) for every mapping entry, depth first
func visit(n *yaml.Node, f func(k, v, parent *yaml.Node)) {
	if n == nil {
		return
	}
	switch n.Kind {
	case yaml.DocumentNode, yaml.SequenceNode:
		for _, c := range n.Content {
			visit(c, f)
		}
	case yaml.MappingNode:
		for i := 0; i+1 < len(n.Content); i += 2 {
			f(n.Content[i], n.Content[i+1], n)
			visit(n.Content[i+1], f)
		}
	}
}

func isIriChar(c byte) bool {
	return c == '_' || c == '-' || c == '.' || c == '\\' || (c >= '0' && c <= '9') || (c >= 'a' && c <= 'z') || (c >= 'A' && c <= 'Z')
}

// replacePrefix rewrites every compact IRI "<from>.x" of a path / IRI string to "<to>.x"
func replacePrefix(s, from, to string) string {
	var b strings.Builder
	i := 0
	for i < len(s) {
		if strings.HasPrefix(s[i:], from+".") && (i == 0 || !isIriChar(s[i-1])) && i+len(from)+1 < len(s) && isIriChar(s[i+len(from)+1]) && s[i+len(from)+1] != '.' {
			b.WriteString(to + ".")
			i += len(from) + 1
			continue
		}
		b.WriteByte(s[i])
		i++
	}
	return b.String()
}

var msgVar = regexp.MustCompile(`\{\{\s*([\w-]+)\.([\w-]+)\s*}}`)

// rewriteUses applies fn to every use site of a compact IRI; sel selects the site kinds ("all" or "paths")
func rewriteUses(root *yaml.Node, from, to, sel string) {
	visit(root, func(k, v, parent *yaml.Node) {
		key := k.Value
		switch {
		case key == "propertyConstraints" && v.Kind == yaml.MappingNode:
			for i := 0; i+1 < len(v.Content); i += 2 {
				v.Content[i].Value = replacePrefix(v.Content[i].Value, from, to)
			}
		case strings.HasSuffix(key, "Property") && v.Kind == yaml.ScalarNode:
			v.Value = replacePrefix(v.Value, from, to)
		case sel == "all" && (key == "targetClass" || key == "datatype") && v.Kind == yaml.ScalarNode:
			v.Value = replacePrefix(v.Value, from, to)
		case sel == "all" && key == "message" && v.Kind == yaml.ScalarNode:
			v.Value = msgVar.ReplaceAllStringFunc(v.Value, func(m string) string {
				sm := msgVar.FindStringSubmatch(m)
				if sm[1] == from {
					return strings.Replace(m, from+".", to+".", 1)
				}
				return m
			})
		}
	})
}

func usesPrefix(root *yaml.Node, p string) bool {
	b, _ := yaml.Marshal(root)
	probe := *root
	_ = probe
	return strings.Contains(string(b), p+".")
}

func applyWalk(text string, walk []rwOp, seed int64) (string, []string, error) {
	var doc yaml.Node
	if err := yaml.Unmarshal([]byte(text), &doc); err != nil {
		return "", nil, err
	}
	if len(doc.Content) == 0 || doc.Content[0].Kind != yaml.MappingNode {
		return "", nil, fmt.Errorf("profile is not a mapping")
	}
	root := doc.Content[0]
	rnd := rand.New(rand.NewSource(seed))
	indent := 2
	blank := 0
	var applied []string
	for _, op := range walk {
		applied = append(applied, fmt.Sprintf("%s/%d", op.Op, op.Arg))
		switch op.Op {
		case "permute:top":
			permuteMapping(root, op.Arg, rnd)
		case "permute:validations":
			permuteMapping(mget(root, "validations"), op.Arg, rnd)
		case "permute:validation":
			// the keys of every validation mapping (targetClass, message, the expression keys ...), at any depth
			if vs := mget(root, "validations"); vs != nil && vs.Kind == yaml.MappingNode {
				for i := 1; i < len(vs.Content); i += 2 {
					permuteMapping(vs.Content[i], op.Arg, rnd)
				}
			}
			visit(root, func(k, v, _ *yaml.Node) {
				if k.Value == "nested" || k.Value == "validation" || k.Value == "not" || k.Value == "if" || k.Value == "then" || k.Value == "else" {
					permuteMapping(v, op.Arg, rnd)
				}
			})
		case "permute:prefixes":
			permuteMapping(mget(root, "prefixes"), op.Arg, rnd)
		case "permute:propertyConstraints":
			visit(root, func(k, v, _ *yaml.Node) {
				if k.Value == "propertyConstraints" {
					permuteMapping(v, op.Arg, rnd)
				}
			})
		case "permute:constraints":
			visit(root, func(k, v, _ *yaml.Node) {
				if k.Value == "propertyConstraints" && v.Kind == yaml.MappingNode {
					for i := 1; i < len(v.Content); i += 2 {
						permuteMapping(v.Content[i], op.Arg, rnd)
					}
				}
			})
		case "permute:levelList":
			for _, l := range []string{"violation", "warning", "info"} {
				permuteSeq(mget(root, l), op.Arg, rnd)
			}
		case "permute:operands":
			visit(root, func(k, v, _ *yaml.Node) {
				if k.Value == "and" || k.Value == "or" {
					permuteSeq(v, op.Arg, rnd)
				}
			})
		case "style:quote":
			st := yaml.DoubleQuotedStyle
			if op.Arg == 2 {
				st = yaml.SingleQuotedStyle
			}
			var q func(n *yaml.Node)
			q = func(n *yaml.Node) {
				if n.Kind == yaml.ScalarNode && n.Tag == "!!str" && rnd.Intn(3) > 0 {
					n.Style = st
					if strings.Contains(n.Value, "\n") && rnd.Intn(2) == 0 {
						// a text with line breaks may as well be a block scalar, folded or literal
						n.Style = []yaml.Style{yaml.FoldedStyle, yaml.LiteralStyle}[rnd.Intn(2)]
					}
				}
				for _, c := range n.Content {
					q(c)
				}
			}
			q(root)
		case "style:flow":
			visit(root, func(k, v, _ *yaml.Node) {
				if (op.Arg == 1 && (k.Value == "propertyConstraints" || k.Value == "prefixes")) ||
					(op.Arg == 2 && (k.Value == "violation" || k.Value == "warning" || k.Value == "info" || k.Value == "and" || k.Value == "or" || k.Value == "nested")) {
					v.Style = yaml.FlowStyle
				} else if op.Arg == 2 && v.Style == yaml.FlowStyle {
					v.Style = 0
				}
			})
		case "style:comments":
			visit(root, func(k, v, _ *yaml.Node) {
				if rnd.Intn(4) == 0 {
					k.HeadComment = "a comment: with # hash and 'quotes'"
				}
				if v.Kind == yaml.ScalarNode && v.Style&yaml.LiteralStyle == 0 && v.Style&yaml.FoldedStyle == 0 && rnd.Intn(5) == 0 {
					v.LineComment = "trailing"
				}
			})
		case "style:blank":
			blank = op.Arg
		case "style:indent":
			indent = []int{2, 4, 7}[op.Arg%3]
		case "rename", "alias":
			prefixes := mget(root, "prefixes")
			if prefixes == nil || len(prefixes.Content) == 0 {
				applied[len(applied)-1] += "(skipped)"
				continue
			}
			var names []string
			for i := 0; i < len(prefixes.Content); i += 2 {
				names = append(names, prefixes.Content[i].Value)
			}
			sort.Strings(names)
			p := names[rnd.Intn(len(names))]
			q := "zz"
			if (op.Op == "rename" && op.Arg == 2) || (op.Op == "alias" && rnd.Intn(2) == 0) {
				q = "my-ns"
			}
			taken := false
			for _, n := range names {
				if n == q {
					taken = true
				}
			}
			if _, bi := builtinPrefixes[q]; bi || taken {
				applied[len(applied)-1] += "(skipped)"
				continue
			}
			if op.Op == "rename" {
				for i := 0; i < len(prefixes.Content); i += 2 {
					if prefixes.Content[i].Value == p {
						prefixes.Content[i].Value = q
					}
				}
				rewriteUses(root, p, q, "all")
			} else {
				var iri *yaml.Node
				for i := 0; i < len(prefixes.Content); i += 2 {
					if prefixes.Content[i].Value == p {
						iri = prefixes.Content[i+1]
					}
				}
				prefixes.Content = append(prefixes.Content, &yaml.Node{Kind: yaml.ScalarNode, Tag: "!!str", Value: q},
					&yaml.Node{Kind: yaml.ScalarNode, Tag: "!!str", Value: iri.Value, Style: iri.Style})
				if op.Arg == 1 {
					rewriteUses(root, p, q, "all")
				} else {
					rewriteUses(root, p, q, "paths")
				}
			}
		case "builtinAlias":
			if op.Arg == 2 {
				// a fresh name bound to the namespace of a built-in prefix the profile uses, written instead of it
				prefixes := mget(root, "prefixes")
				if prefixes == nil {
					prefixes = &yaml.Node{Kind: yaml.MappingNode, Tag: "!!map"}
					root.Content = append(root.Content, &yaml.Node{Kind: yaml.ScalarNode, Tag: "!!str", Value: "prefixes"}, prefixes)
				}
				text, _ := yaml.Marshal(root)
				var used []string
				for p := range builtinPrefixes {
					if mget(prefixes, p) == nil && (strings.Contains(string(text), " "+p+".") || strings.Contains(string(text), "{"+p+".") || strings.Contains(string(text), "("+p+".")) {
						used = append(used, p)
					}
				}
				sort.Strings(used)
				q := []string{"zz", "my-ns"}[rnd.Intn(2)]
				if len(used) == 0 || mget(prefixes, q) != nil {
					applied[len(applied)-1] += "(skipped)"
					continue
				}
				p := used[rnd.Intn(len(used))]
				prefixes.Content = append(prefixes.Content, &yaml.Node{Kind: yaml.ScalarNode, Tag: "!!str", Value: q},
					&yaml.Node{Kind: yaml.ScalarNode, Tag: "!!str", Value: builtinPrefixes[p]})
				rewriteUses(root, p, q, "all")
				continue
			}
			prefixes := mget(root, "prefixes")
			if mget(prefixes, "shapes") != nil || mget(prefixes, "raml-shapes") != nil {
				applied[len(applied)-1] += "(skipped)"
				continue
			}
			rewriteUses(root, "shapes", "\x00tmp", "all")
			rewriteUses(root, "raml-shapes", "shapes", "all")
			rewriteUses(root, "\x00tmp", "raml-shapes", "all")
		case "redeclare":
			prefixes := mget(root, "prefixes")
			if prefixes == nil {
				prefixes = &yaml.Node{Kind: yaml.MappingNode, Tag: "!!map"}
				root.Content = append(root.Content, &yaml.Node{Kind: yaml.ScalarNode, Tag: "!!str", Value: "prefixes"}, prefixes)
			}
			var cands []string
			for p := range builtinPrefixes {
				if mget(prefixes, p) == nil {
					cands = append(cands, p)
				}
			}
			sort.Strings(cands)
			p := cands[rnd.Intn(len(cands))]
			prefixes.Content = append(prefixes.Content, &yaml.Node{Kind: yaml.ScalarNode, Tag: "!!str", Value: p},
				&yaml.Node{Kind: yaml.ScalarNode, Tag: "!!str", Value: builtinPrefixes[p]})
		default:
			return "", applied, fmt.Errorf("unknown rewrite %s", op.Op)
		}
	}
	var buf bytes.Buffer
	enc := yaml.NewEncoder(&buf)
	enc.SetIndent(indent)
	if err := enc.Encode(&doc); err != nil {
		return "", applied, err
	}
	enc.Close()
	out := buf.String()
	if blank > 0 {
		lines := strings.Split(out, "\n")
		var res []string
		for i, l := range lines {
			if i > 0 && len(l) > 0 && l[0] != ' ' && l[0] != '#' && l[0] != '-' && l[0] != '}' && l[0] != ']' {
				res = append(res, strings.Repeat("\n", blank-1))
			}
			res = append(res, l)
		}
		blanked := strings.Join(res, "\n")
		// a line at column 0 may also be the continuation or the closing quote of a multi-line scalar: blank lines there
		// would change the text of the scalar.  The restyled text is used only if it still denotes the same document.
		var before, after any
		if yaml.Unmarshal([]byte(out), &before) == nil && yaml.Unmarshal([]byte(blanked), &after) == nil && reflect.DeepEqual(before, after) {
			out = blanked
		} else {
			applied = append(applied, "style:blank(not applied: it would change a multi-line scalar)")
		}
	}
	if !strings.HasPrefix(out, "#%") {
		out = "#%Validation Profile 1.0\n" + out
	}
	return out, applied, nil
}

func runRespell(c rsplCase) (o rsplObs) {
	o.ID = c.ID
	o.Results = []string{}
	defer func() {
		if r := recover(); r != nil {
			o.Err = fmt.Sprint("panic: ", r)
		}
	}()
	text := c.Profile
	if len(c.Walk) > 0 {
		t, applied, err := applyWalk(c.Profile, c.Walk, c.Seed)
		o.Applied = applied
		if err != nil {
			o.RewriteEr = err.Error()
			return
		}
		text = t
	}
	rep, err := pkg.ValidateWithConfiguration(text, c.Data, false, nil, clockA, config.DefaultReportConfiguration())
	if err != nil {
		o.Err = err.Error()
		o.Text = text
		return
	}
	var doc []map[string]any
	if err := json.Unmarshal([]byte(rep), &doc); err != nil {
		o.Err = "report: " + err.Error()
		return
	}
	enc, _ := doc[0]["doc:encodes"].([]any)
	node, _ := enc[0].(map[string]any)
	o.Conforms, _ = node["conforms"].(bool)
	seen := map[string]bool{}
	res, _ := node["result"].([]any)
	for _, r := range res {
		rm, _ := r.(map[string]any)
		key := fmt.Sprintf("%s|%s|%s|%s", scalarString(rm["resultSeverity"]), scalarString(rm["sourceShapeName"]),
			scalarString(rm["focusNode"]), scalarString(rm["resultMessage"]))
		if !seen[key] {
			seen[key] = true
			o.Results = append(o.Results, key)
		}
	}
	sort.Strings(o.Results)
	o.Text = text
	return
}

func init() {
	commands["respell"] = func(args []string) error {
		if len(args) != 2 {
			return fmt.Errorf("usage: acvh respell <in.ndjson> <out.ndjson>")
		}
		w, err := newNDWriter(args[1])
		if err != nil {
			return err
		}
		if err := readLines(args[0], func(b []byte) error {
			var c rsplCase
			if err := json.Unmarshal(b, &c); err != nil {
				return err
			}
			return w.write(runRespell(c))
		}); err != nil {
			return err
		}
		return w.close()
	}
}
