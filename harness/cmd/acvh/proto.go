package main

import (
	"crypto/sha256"
	"encoding/hex"
	"encoding/json"
	"fmt"
	"runtime"
	"runtime/debug"
	"strings"
	"sync"
	"sync/atomic"
	"time"

	"github.com/aml-org/amf-custom-validator/pkg"
	"github.com/aml-org/amf-custom-validator/pkg/config"
	"github.com/aml-org/amf-custom-validator/pkg/events"
	"github.com/aml-org/amf-custom-validator/pkg/milestones"
	"github.com/open-policy-agent/opa/rego"
)

// fixedClock is a ValidationConfiguration with a constant report time.
type fixedClock struct{ t time.Time }

func (f fixedClock) ReportCreationTime() time.Time { return f.t }

var clockA = fixedClock{time.Date(2001, time.February, 3, 4, 5, 6, 0, time.UTC)}
var clockB = fixedClock{time.Date(2031, time.December, 30, 23, 59, 58, 0, time.UTC)}

type protoCase struct {
	ID      string `json:"id"`
	Entry   string `json:"entry"`
	Chan    string `json:"chan"` // none | unbuf | buf | bufSmall
	Profile string `json:"profile"`
	Data    string `json:"data"`
	PClass  string `json:"pclass"`
	DClass  string `json:"dclass"`
	// when set, Profile/Data are file paths
	ProfileFile string `json:"profileFile,omitempty"`
	DataFile    string `json:"dataFile,omitempty"`
	// Repeat > 1: the same call is made again (without a channel) -- same texts, same process, back to back
	Repeat int `json:"repeat,omitempty"`
	// Debug is passed as the entry points' debug argument; it must change nothing that is observed
	Debug bool `json:"debug,omitempty"`
	// ReuseVar: the channel is handed over through one package-level variable shared by all such cases
	ReuseVar bool `json:"reuseVar,omitempty"`
}

type callObs struct {
	Entry    string `json:"entry"`
	Events   []int  `json:"events"`          // events.EventType values received during this call
	Kind     string `json:"kind"`            // report | error | handle | panic | timeout
	Closed   bool   `json:"closed"`          // channel found closed when the call returned
	HasChan  bool   `json:"hasChan"`         //
	Panic    string `json:"panic,omitempty"` //
	Err      string `json:"err,omitempty"`   //
	Conforms *bool  `json:"conforms,omitempty"`
	Sha      string `json:"sha,omitempty"`
	TimesOK  bool   `json:"timesOK"` // event timestamps are non-decreasing
}

type msObs struct {
	Op        string `json:"op"`
	DurNonNeg bool   `json:"durNonNeg"`
	StartOK   bool   `json:"startOK"` // Start equals the time of the paired Start event
}

type protoObs struct {
	ID         string    `json:"id"`
	Entry      string    `json:"entry"`
	Chan       string    `json:"chan"`
	PClass     string    `json:"pclass"`
	DClass     string    `json:"dclass"`
	Skipped    string    `json:"skipped,omitempty"`
	Calls      []callObs `json:"calls"`
	Milestones []msObs   `json:"milestones"`
	Stack      string    `json:"stack,omitempty"`
}

const watchdog = 45 * time.Second // generous: a loaded machine must not turn a slow call into a "blocked" one

type chanRec struct {
	ch       chan events.Event
	mu       sync.Mutex
	evs      []events.Event
	done     chan struct{}
	mode     string
	closed   bool
	callDone chan struct{} // bufSmall: closed when the (first) call on this channel has returned
	once     sync.Once
}

// sharedChanVar is ONE variable through which every other case passes its (fresh) channel: a caller that keeps a single
// `var ch chan events.Event` and re-makes it per call is as legal as one that declares a new variable each time.
var sharedChanVar chan events.Event

func newChanRec(mode string) *chanRec {
	c := &chanRec{mode: mode, done: make(chan struct{})}
	if mode == "buf" {
		c.ch = make(chan events.Event, 64)
		close(c.done)
	} else if mode == "bufSmall" {
		// a small buffer and a lazy listener: it takes an event only once the buffer is full (and then hesitates), or
		// when the call is over.  The library must wait for it; no event may be lost or reordered.
		c.ch = make(chan events.Event, 2)
		c.callDone = make(chan struct{})
		go func() {
			defer close(c.done)
			record := func(e events.Event) {
				if e.EventType == sentinelEvent {
					return
				}
				c.mu.Lock()
				c.evs = append(c.evs, e)
				c.mu.Unlock()
			}
			over := false
			for !over {
				for len(c.ch) < cap(c.ch) && !over {
					select {
					case <-c.callDone:
						over = true
					default:
						runtime.Gosched()
					}
				}
				if over {
					break
				}
				for i := 0; i < 2000; i++ {
					runtime.Gosched()
				}
				e, ok := <-c.ch
				if !ok {
					return
				}
				record(e)
			}
			for e := range c.ch {
				record(e)
			}
		}()
	} else {
		c.ch = make(chan events.Event)
		go func() {
			for e := range c.ch {
				if e.EventType == sentinelEvent {
					continue
				}
				c.mu.Lock()
				c.evs = append(c.evs, e)
				c.mu.Unlock()
			}
			close(c.done)
		}()
	}
	return c
}

// take returns the events received since the last take.  For the buffered
// mode it drains synchronously; closedSeen reports a close observed while
// draining.
func (c *chanRec) take() (out []events.Event, closedSeen bool) {
	if c.mode == "buf" {
		for {
			select {
			case e, ok := <-c.ch:
				if !ok {
					return out, true
				}
				out = append(out, e)
			default:
				return out, false
			}
		}
	}
	c.mu.Lock()
	out = c.evs
	c.evs = nil
	c.mu.Unlock()
	return out, false
}

const sentinelEvent = events.EventType(-1)

// syncProbe (unbuffered mode) sends a sentinel through the channel.  The
// consumer is sequential, so once the send has completed every event the
// library sent before has been recorded; and the send panics exactly when the
// library has already closed the channel.  Deterministic: no timing involved.
func (c *chanRec) syncProbe() (closed bool) {
	if c.closed {
		return true
	}
	defer func() {
		if r := recover(); r != nil {
			closed = true
			c.closed = true
		}
	}()
	// with a buffer of k slots, k+1 sentinels: once the last send has completed the first sentinel has been received,
	// and with it everything the library sent before (FIFO)
	for i := 0; i <= cap(c.ch); i++ {
		c.ch <- events.Event{EventType: sentinelEvent}
	}
	return false
}

// probeClosed reports whether the library has closed the channel.  It is
// destructive for the unbuffered mode (it closes the channel itself when the
// library has not), so it is only used once the channel is no longer needed.
func (c *chanRec) probeClosed() (closed bool) {
	if c.closed {
		return true
	}
	defer func() {
		if r := recover(); r != nil {
			closed = true
		}
		c.closed = true
	}()
	close(c.ch)
	return false
}

type outcome struct {
	chanClosed bool   // the caller's channel was found closed after this call
	release    func() // closes the caller's channel if it is still open
	kind       string
	report     string
	err        string
	pmsg       string
	stack      string
	h          *rego.PreparedEvalQuery
}

// poisoned is set once a call has hit the watchdog: the process then holds a blocked goroutine (and possibly a lock),
// so later observations would only repeat the same hang; the remaining cases of this process are skipped.
var poisoned int32

func guarded(f func() (string, *rego.PreparedEvalQuery, error)) outcome {
	if atomic.LoadInt32(&poisoned) != 0 {
		return outcome{kind: "timeout"}
	}
	resc := make(chan outcome, 1)
	go func() {
		defer func() {
			if r := recover(); r != nil {
				resc <- outcome{kind: "panic", pmsg: fmt.Sprint(r), stack: string(debug.Stack())}
			}
		}()
		rep, h, err := f()
		switch {
		case err != nil:
			resc <- outcome{kind: "error", err: err.Error(), report: rep, h: h}
		case h != nil:
			resc <- outcome{kind: "handle", h: h}
		default:
			resc <- outcome{kind: "report", report: rep}
		}
	}()
	select {
	case o := <-resc:
		return o
	case <-time.After(watchdog):
		atomic.StoreInt32(&poisoned, 1)
		return outcome{kind: "timeout"}
	}
}

func reportFacts(rep string) (*bool, string) {
	sum := sha256.Sum256([]byte(rep))
	sha := hex.EncodeToString(sum[:8])
	var doc []map[string]any
	if err := json.Unmarshal([]byte(rep), &doc); err != nil || len(doc) != 1 {
		return nil, sha
	}
	enc, _ := doc[0]["doc:encodes"].([]any)
	if len(enc) != 1 {
		return nil, sha
	}
	node, _ := enc[0].(map[string]any)
	c, ok := node["conforms"].(bool)
	if !ok {
		return nil, sha
	}
	return &c, sha
}

func evInts(es []events.Event) ([]int, bool) {
	out := make([]int, 0, len(es))
	ok := true
	for i, e := range es {
		out = append(out, int(e.EventType))
		if i > 0 && e.Time.Before(es[i-1].Time) {
			ok = false
		}
	}
	return out, ok
}

func runMilestones(es []events.Event) []msObs {
	in := make(chan events.Event, len(es)+1)
	out := make(chan milestones.Milestone, len(es)+1)
	for _, e := range es {
		in <- e
	}
	close(in)
	done := make(chan struct{})
	var res []msObs
	go func() {
		defer func() { recover(); close(done) }()
		milestones.GenerateMilestonesFromEvents(&in, &out)
	}()
	select {
	case <-done:
	case <-time.After(watchdog):
		return []msObs{{Op: "TIMEOUT"}}
	}
	starts := map[events.EventType]time.Time{}
	for _, e := range es {
		if int(e.EventType)%2 == 0 {
			starts[e.EventType] = e.Time
		}
	}
	opStart := map[string]events.EventType{
		"ProfileParsing": events.ProfileParsingStart, "InputDataParsing": events.InputDataParsingStart,
		"InputDataNormalization": events.InputDataNormalizationStart, "RegoGeneration": events.RegoGenerationStart,
		"OpaValidation": events.OpaValidationStart, "BuildReport": events.BuildReportStart,
		"RegoCompilation": events.RegoCompilationStart,
	}
	for {
		select {
		case m, ok := <-out:
			if !ok {
				return res
			}
			st, known := opStart[string(m.Operation)]
			res = append(res, msObs{Op: string(m.Operation), DurNonNeg: m.Duration >= 0,
				StartOK: known && m.Start.Equal(starts[st])})
		default:
			// milestone channel was not closed
			return append(res, msObs{Op: "NOTCLOSED"})
		}
	}
}

func runProto(c protoCase) protoObs {
	obs := protoObs{ID: c.ID, Entry: c.Entry, Chan: c.Chan, PClass: c.PClass, DClass: c.DClass, Calls: []callObs{}, Milestones: []msObs{}}
	if atomic.LoadInt32(&poisoned) != 0 {
		obs.Skipped = "process poisoned by an earlier timeout"
		return obs
	}
	var rec *chanRec
	var chp *chan events.Event
	if c.Chan != "none" {
		rec = newChanRec(c.Chan)
		chp = &rec.ch
		if c.ReuseVar {
			sharedChanVar = rec.ch
			chp = &sharedChanVar
		}
	}
	var all []events.Event
	doCall := func(entry string, last bool, f func() (string, *rego.PreparedEvalQuery, error)) outcome {
		o := guarded(f)
		co := callObs{Entry: entry, Kind: o.kind, Err: o.err, Panic: o.pmsg, HasChan: rec != nil, Events: []int{}, TimesOK: true}
		if o.stack != "" {
			obs.Stack = o.stack
		}
		if o.kind == "report" {
			co.Conforms, co.Sha = reportFacts(o.report)
		}
		if rec != nil && rec.callDone != nil {
			rec.once.Do(func() { close(rec.callDone) })
		}
		if rec != nil && o.kind != "timeout" {
			es, closedSeen := rec.take()
			if rec.mode == "buf" {
				if closedSeen {
					rec.closed = true
				}
				co.Closed = closedSeen
			} else {
				co.Closed = rec.syncProbe()
				if co.Closed {
					<-rec.done
				} else if last || o.kind != "handle" {
					rec.probeClosed() // we close it ourselves to release the consumer
					<-rec.done
				}
				more, _ := rec.take()
				es = append(es, more...)
			}
			co.Events, co.TimesOK = evInts(es)
			all = append(all, es...)
		}
		obs.Calls = append(obs.Calls, co)
		if rec != nil {
			o.chanClosed = rec.closed
			if !rec.closed && o.kind != "timeout" {
				o.release = func() { rec.probeClosed() }
			}
		}
		return o
	}
	reps := c.Repeat
	if reps < 1 || c.Chan != "none" {
		reps = 1
	}
	for rep := 0; rep < reps; rep++ {
		runProtoOnce(c, &obs, doCall, chp)
	}
	if rec != nil && len(all) > 0 {
		obs.Milestones = runMilestones(all)
	}
	return obs
}

func runProtoOnce(c protoCase, obsp *protoObs, doCall func(string, bool, func() (string, *rego.PreparedEvalQuery, error)) outcome, chp *chan events.Event) {
	repCfg := config.DefaultReportConfiguration()
	switch c.Entry {
	case "validate":
		doCall("validate", true, func() (string, *rego.PreparedEvalQuery, error) {
			r, err := pkg.Validate(c.Profile, c.Data, c.Debug, chp)
			return r, nil, err
		})
	case "validateCfg":
		doCall("validate", true, func() (string, *rego.PreparedEvalQuery, error) {
			r, err := pkg.ValidateWithConfiguration(c.Profile, c.Data, c.Debug, chp, clockA, repCfg)
			return r, nil, err
		})
	case "compile":
		doCall("compile", true, func() (string, *rego.PreparedEvalQuery, error) {
			h, err := pkg.CompileProfile(c.Profile, c.Debug, chp)
			if err != nil {
				return "", h, err
			}
			return "", h, nil
		})
	case "validateCompiled", "validateCompiledCfg":
		pre := guarded(func() (string, *rego.PreparedEvalQuery, error) {
			h, err := pkg.CompileProfile(c.Profile, c.Debug, nil)
			return "", h, err
		})
		if pre.kind != "handle" {
			obsp.Skipped = "precompile:" + pre.kind
			break
		}
		doCall("validateCompiled", true, func() (string, *rego.PreparedEvalQuery, error) {
			if c.Entry == "validateCompiled" {
				r, err := pkg.ValidateCompiled(pre.h, c.Data, c.Debug, chp)
				return r, nil, err
			}
			r, err := pkg.ValidateCompiledWithConfiguration(pre.h, c.Data, c.Debug, chp, clockA, repCfg)
			return r, nil, err
		})
	case "compileThenValidate":
		o := doCall("compile", false, func() (string, *rego.PreparedEvalQuery, error) {
			h, err := pkg.CompileProfile(c.Profile, c.Debug, chp)
			if err != nil {
				return "", h, err
			}
			return "", h, nil
		})
		if o.kind == "handle" && !o.chanClosed {
			doCall("validateCompiled", true, func() (string, *rego.PreparedEvalQuery, error) {
				r, err := pkg.ValidateCompiled(o.h, c.Data, c.Debug, chp)
				return r, nil, err
			})
		} else if o.release != nil {
			o.release()
		}
	default:
		obsp.Skipped = "unknown entry " + c.Entry
	}
}

func init() {
	commands["proto"] = func(args []string) error {
		if len(args) != 2 {
			return fmt.Errorf("usage: acvh proto <cases.ndjson> <out.ndjson>")
		}
		var cases []protoCase
		if err := readLines(args[0], func(b []byte) error {
			var c protoCase
			if err := json.Unmarshal(b, &c); err != nil {
				return err
			}
			cases = append(cases, c)
			return nil
		}); err != nil {
			return err
		}
		w, err := newNDWriter(args[1])
		if err != nil {
			return err
		}
		for _, c := range cases {
			o := runProto(c)
			if len(o.Stack) > 4000 {
				o.Stack = o.Stack[:4000]
			}
			o.Stack = strings.TrimSpace(o.Stack)
			if err := w.write(o); err != nil {
				return err
			}
		}
		return w.close()
	}
}
