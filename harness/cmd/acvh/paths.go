package main

import (
	"encoding/json"
	"fmt"
	"strings"

	"github.com/aml-org/amf-custom-validator/pkg"
	"github.com/aml-org/amf-custom-validator/pkg/verifexport"
	"gopkg.in/yaml.v3"
)

// paths: feeds concrete strings to the real property-path parser (hook H1)
// and, optionally, end-to-end through CompileProfile as the key of a
// one-constraint profile; projects the parse tree to the AST shape of
// spec/Paths.tla (same-kind nesting flattened).
type pathsIn struct {
	ID  string `json:"id"`
	S   string `json:"s"`
	E2E bool   `json:"e2e"`
	// Arg: with E2E, the path is the argument of a property-comparison facet (next to another facet) instead of the key
	Arg string `json:"arg,omitempty"`
	// Where: with E2E, where in the validation the constraint sits: "" (the validation's own propertyConstraints),
	// andFirst | andSecond | orFirst | orSecond | not | nested | atLeast | then
	Where string `json:"where,omitempty"`
}

type pathAst struct {
	K     string    `json:"k"` // prop | type | and | or
	Iri   string    `json:"iri,omitempty"`
	Inv   bool      `json:"inv"`
	Trans bool      `json:"trans"`
	Xs    []pathAst `json:"xs,omitempty"`
}

type pathsOut struct {
	ID       string   `json:"id"`
	OK       bool     `json:"ok"`
	Panic    string   `json:"panic,omitempty"`
	Err      string   `json:"err,omitempty"`
	Ast      *pathAst `json:"ast,omitempty"`
	E2E      string   `json:"e2e,omitempty"` // compiled | error | panic
	E2EError string   `json:"e2eError,omitempty"`
}

func normPath(n verifexport.PathNode) pathAst {
	switch n.Kind {
	case "prop":
		if n.Iri == "@type" {
			return pathAst{K: "type"}
		}
		return pathAst{K: "prop", Iri: n.Iri, Inv: n.Inverse, Trans: n.Transitive}
	case "and", "or":
		out := pathAst{K: n.Kind}
		for _, b := range n.Body {
			c := normPath(b)
			if c.K == n.Kind {
				out.Xs = append(out.Xs, c.Xs...)
			} else {
				out.Xs = append(out.Xs, c)
			}
		}
		return out
	}
	return pathAst{K: n.Kind}
}

func collectPrefixes(a pathAst, acc map[string]bool) {
	if a.K == "prop" {
		acc[strings.SplitN(a.Iri, ".", 2)[0]] = true
	}
	for _, x := range a.Xs {
		collectPrefixes(x, acc)
	}
}

func runPaths(in pathsIn) (out pathsOut) {
	out.ID = in.ID
	func() {
		defer func() {
			if r := recover(); r != nil {
				out.Panic = fmt.Sprint(r)
			}
		}()
		n, err := verifexport.ParsePath(in.S)
		if err != nil {
			out.Err = err.Error()
			return
		}
		a := normPath(n)
		out.OK = true
		out.Ast = &a
	}()
	if in.E2E {
		prefixes := map[string]any{"ex": exNS}
		if out.Ast != nil {
			acc := map[string]bool{}
			collectPrefixes(*out.Ast, acc)
			for p := range acc {
				prefixes[p] = "http://example.org/" + p + "#"
			}
		}
		// declare every alphanumeric run followed by a dot as a prefix, so that only the grammar decides
		for _, tok := range strings.FieldsFunc(in.S, func(r rune) bool {
			return !(r == '-' || r == '_' || (r >= '0' && r <= '9') || (r >= 'a' && r <= 'z') || (r >= 'A' && r <= 'Z'))
		}) {
			prefixes[tok] = "http://example.org/" + tok + "#"
		}
		pcs := map[string]any{in.S: map[string]any{"minCount": 1}}
		if in.Arg != "" {
			pcs = map[string]any{"ex.a": map[string]any{"minCount": 1, in.Arg: in.S}}
		}
		expr := map[string]any{"propertyConstraints": pcs}
		simple := map[string]any{"propertyConstraints": map[string]any{"ex.z": map[string]any{"minCount": 1}}}
		body := map[string]any{"targetClass": "ex.T", "message": "m"}
		switch in.Where {
		case "andFirst":
			body["and"] = []any{expr, simple}
		case "andSecond":
			body["and"] = []any{simple, expr}
		case "orFirst":
			body["or"] = []any{expr, simple}
		case "orSecond":
			body["or"] = []any{simple, expr}
		case "not":
			body["not"] = expr
		case "nested":
			body["propertyConstraints"] = map[string]any{"ex.child": map[string]any{"nested": expr}}
		case "atLeast":
			body["propertyConstraints"] = map[string]any{"ex.child": map[string]any{"atLeast": map[string]any{"count": 1, "validation": expr}}}
		case "then":
			body["if"], body["then"] = simple, expr
		default:
			body["propertyConstraints"] = pcs
		}
		doc := map[string]any{"profile": "p", "prefixes": prefixes, "violation": []any{"v"},
			"validations": map[string]any{"v": body}}
		b, _ := yaml.Marshal(doc)
		func() {
			defer func() {
				if r := recover(); r != nil {
					out.E2E = "panic"
					out.E2EError = fmt.Sprint(r)
				}
			}()
			_, err := pkg.CompileProfile(string(b), false, nil)
			if err != nil {
				out.E2E = "error"
				out.E2EError = err.Error()
			} else {
				out.E2E = "compiled"
			}
		}()
	}
	return
}

func init() {
	commands["paths"] = func(args []string) error {
		if len(args) != 2 {
			return fmt.Errorf("usage: acvh paths <in.ndjson> <out.ndjson>")
		}
		w, err := newNDWriter(args[1])
		if err != nil {
			return err
		}
		if err := readLines(args[0], func(b []byte) error {
			var c pathsIn
			if err := json.Unmarshal(b, &c); err != nil {
				return err
			}
			return w.write(runPaths(c))
		}); err != nil {
			return err
		}
		return w.close()
	}
}
