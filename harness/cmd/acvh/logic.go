package main

import (
	"encoding/json"
	"fmt"
	"sort"
	"strings"

	"github.com/aml-org/amf-custom-validator/pkg"
	"github.com/aml-org/amf-custom-validator/pkg/config"
	"gopkg.in/yaml.v3"
)

// logic: renders abstract formulas (spec/Logic.tla ASTs) as validations of
// one profile and an abstract world as one JSON-LD document, runs the real
// entry points and projects the report to the set of reported target nodes
// per validation.  No expectation is computed here.

const exNS = "http://example.org/ns#"
const nodeNS = "http://example.org/n/"

type atomKind struct {
	name       string
	constraint map[string]any
	tvals      []any // witness values making the constraint true (on property a<i>)
	fvals      []any
	tother     []any // values of the compared property b<i>, when used
	fother     []any
}

var atomKinds = []atomKind{
	{"minCount", map[string]any{"minCount": 1}, []any{"v"}, []any{}, nil, nil},
	{"maxCount", map[string]any{"maxCount": 1}, []any{"v"}, []any{"v", "w"}, nil, nil},
	{"exactCount", map[string]any{"exactCount": 2}, []any{"v", "w"}, []any{"v"}, nil, nil},
	{"minLength", map[string]any{"minLength": 3}, []any{"abc"}, []any{"ab"}, nil, nil},
	{"maxLength", map[string]any{"maxLength": 3}, []any{"abc"}, []any{"abcd"}, nil, nil},
	{"exactLength", map[string]any{"exactLength": 3}, []any{"abc"}, []any{"abcd"}, nil, nil},
	{"pattern", map[string]any{"pattern": "^a.*z$"}, []any{"abcz"}, []any{"zzz"}, nil, nil},
	{"in", map[string]any{"in": []any{"x", "y"}}, []any{"x"}, []any{"q"}, nil, nil},
	{"inNumbers", map[string]any{"in": []any{1, 2}}, []any{2}, []any{3}, nil, nil},
	{"containsAll", map[string]any{"containsAll": []any{"x", "y"}}, []any{"x", "y", "z"}, []any{"x", "z"}, nil, nil},
	{"containsSome", map[string]any{"containsSome": []any{"x", "y"}}, []any{"y", "z"}, []any{"z"}, nil, nil},
	{"minInclusive", map[string]any{"minInclusive": 5}, []any{5}, []any{4}, nil, nil},
	{"maxInclusive", map[string]any{"maxInclusive": 5}, []any{5}, []any{6}, nil, nil},
	{"minExclusive", map[string]any{"minExclusive": 5}, []any{6}, []any{5}, nil, nil},
	{"maxExclusive", map[string]any{"maxExclusive": 5}, []any{4}, []any{5}, nil, nil},
	{"minInclusiveFloat", map[string]any{"minInclusive": 5.5}, []any{5.5}, []any{5.25}, nil, nil},
	{"maxExclusiveFloat", map[string]any{"maxExclusive": 5.5}, []any{5.25}, []any{5.5}, nil, nil},
	{"datatypeInteger", map[string]any{"datatype": "xsd.integer"}, []any{5}, []any{"five"}, nil, nil},
	{"datatypeString", map[string]any{"datatype": "xsd.string"}, []any{"s"}, []any{5}, nil, nil},
	{"datatypeBoolean", map[string]any{"datatype": "xsd.boolean"}, []any{true}, []any{"true"}, nil, nil},
	{"lessThanProperty", map[string]any{"lessThanProperty": "ex.b%d"}, []any{1}, []any{2}, []any{2}, []any{1}},
	{"lessThanOrEqualsToProperty", map[string]any{"lessThanOrEqualsToProperty": "ex.b%d"}, []any{2}, []any{3}, []any{2}, []any{2}},
	{"equalsToProperty", map[string]any{"equalsToProperty": "ex.b%d"}, []any{"x"}, []any{"x"}, []any{"x"}, []any{"y"}},
	{"disjointWithProperty", map[string]any{"disjointWithProperty": "ex.b%d"}, []any{"x"}, []any{"x"}, []any{"y"}, []any{"x"}},
	// the same constraints with witnesses on the other side of / exactly at the boundary
	{"exactLengthShort", map[string]any{"exactLength": 3}, []any{"abc"}, []any{"ab"}, nil, nil},
	{"exactCountMore", map[string]any{"exactCount": 2}, []any{"v", "w"}, []any{"u", "v", "w"}, nil, nil},
	{"maxCountZeroValues", map[string]any{"maxCount": 1}, []any{}, []any{"v", "w"}, nil, nil},
	{"minCountTwo", map[string]any{"minCount": 2}, []any{"v", "w"}, []any{"v"}, nil, nil},
	{"lessThanPropertyEqual", map[string]any{"lessThanProperty": "ex.b%d"}, []any{1}, []any{2}, []any{2}, []any{2}},
	{"lessThanOrEqualsStrict", map[string]any{"lessThanOrEqualsToProperty": "ex.b%d"}, []any{1}, []any{3}, []any{2}, []any{2}},
	{"minInclusiveAbove", map[string]any{"minInclusive": 5}, []any{6}, []any{4}, nil, nil},
	{"maxInclusiveFloat", map[string]any{"maxInclusive": 5.5}, []any{5.5}, []any{5.75}, nil, nil},
	{"minExclusiveFloat", map[string]any{"minExclusive": 5.5}, []any{5.75}, []any{5.5}, nil, nil},
	{"inMixed", map[string]any{"in": []any{"x", 7, true}}, []any{true}, []any{false}, nil, nil},
	{"containsAllOne", map[string]any{"containsAll": []any{"x"}}, []any{"x"}, []any{"y"}, nil, nil},
	{"containsSomeAll", map[string]any{"containsSome": []any{"x", "y"}}, []any{"x", "y"}, []any{"w", "z"}, nil, nil},
	{"patternUnanchored", map[string]any{"pattern": "b+c"}, []any{"abbc"}, []any{"abd"}, nil, nil},
	// POSITIVE POLARITY ONLY (index >= 37): per-value constraints on properties with no value (vacuously true) or with
	// several values of which one fails (false).  Their negated twins are not their complements (spec/Atoms.tla), so
	// lib/c01.py uses them only in formulas in which no atom is ever negated (no not / if).
	{"patternVacuous", map[string]any{"pattern": "^a.*z$"}, []any{}, []any{"abcz", "zzz"}, nil, nil},
	{"inVacuous", map[string]any{"in": []any{"x", "y"}}, []any{}, []any{"x", "q"}, nil, nil},
	{"minLengthMulti", map[string]any{"minLength": 3}, []any{"abc", "abcd"}, []any{"abcd", "ab"}, nil, nil},
	{"maxInclusiveMulti", map[string]any{"maxInclusive": 5}, []any{4, 5}, []any{5, 6}, nil, nil},
	{"datatypeVacuous", map[string]any{"datatype": "xsd.string"}, []any{}, []any{"s", 5}, nil, nil},
	{"lessThanVacuous", map[string]any{"lessThanProperty": "ex.b%d"}, []any{}, []any{1, 3}, []any{2}, []any{2}},
	{"inNumbersMulti", map[string]any{"in": []any{1, 2}}, []any{1, 2}, []any{2, 3}, nil, nil},
	{"maxLengthVacuous", map[string]any{"maxLength": 3}, []any{}, []any{"abcd", "abc"}, nil, nil},
	// index 45, 46 (usable in any polarity): regular expressions whose first / last character is a blank
	{"patternTrailingBlank", map[string]any{"pattern": "z $"}, []any{"abz "}, []any{"abz"}, nil, nil},
	{"patternLeadingBlank", map[string]any{"pattern": "^ [a-c]+$"}, []any{" abc"}, []any{"abc"}, nil, nil},
}

type logicNode struct {
	Val  []bool              `json:"val"`
	Kids map[string][]string `json:"kids"`
}

type logicWorld struct {
	Targets []string             `json:"targets"`
	Nodes   map[string]logicNode `json:"nodes"`
}

type logicFormula struct {
	FID string         `json:"fid"`
	AST map[string]any `json:"ast"`
}

type logicCase struct {
	ID       string         `json:"id"`
	World    logicWorld     `json:"world"`
	Kinds    []int          `json:"kinds"` // atom index (1-based) -> index into atomKinds
	Formulas []logicFormula `json:"formulas"`
	Spell    int            `json:"spell"`
}

type logicFormulaObs struct {
	FID      string   `json:"fid"`
	Validate []string `json:"validate"`
	Compiled []string `json:"compiled"`
	Err      string   `json:"err,omitempty"`
	Alien    []string `json:"alien,omitempty"`
	Results  int      `json:"results"`
}

type logicObs struct {
	ID       string            `json:"id"`
	Formulas []logicFormulaObs `json:"formulas"`
	Fallback bool              `json:"fallback,omitempty"`
}

func constraintFor(kind atomKind, i int) map[string]any {
	out := map[string]any{}
	for k, v := range kind.constraint {
		if s, ok := v.(string); ok && strings.Contains(s, "%d") {
			out[k] = fmt.Sprintf(s, i)
		} else {
			out[k] = v
		}
	}
	return out
}

func asInt(v any) int {
	switch x := v.(type) {
	case float64:
		return int(x)
	case int:
		return x
	}
	return 0
}

func renderFormula(ast map[string]any, kinds []int, spell int) map[string]any {
	switch ast["k"] {
	case "atom":
		i := asInt(ast["i"])
		return map[string]any{"propertyConstraints": map[string]any{fmt.Sprintf("ex.a%d", i): constraintFor(atomKinds[kinds[i-1]], i)}}
	case "not":
		return map[string]any{"not": renderFormula(ast["x"].(map[string]any), kinds, spell)}
	case "and", "or":
		xs := ast["xs"].([]any)
		if ast["k"] == "and" && spell%2 == 1 {
			// implicit conjunction: distinct atoms folded into one propertyConstraints mapping
			pcs := map[string]any{}
			ok := true
			for _, x := range xs {
				m := x.(map[string]any)
				if m["k"] != "atom" {
					ok = false
					break
				}
				key := fmt.Sprintf("ex.a%d", asInt(m["i"]))
				if _, dup := pcs[key]; dup {
					ok = false
					break
				}
				pcs[key] = constraintFor(atomKinds[kinds[asInt(m["i"])-1]], asInt(m["i"]))
			}
			if ok {
				return map[string]any{"propertyConstraints": pcs}
			}
		}
		var ops []any
		for _, x := range xs {
			ops = append(ops, renderFormula(x.(map[string]any), kinds, spell))
		}
		if spell%4 >= 2 { // operand order is spelling, not meaning
			for l, r := 0, len(ops)-1; l < r; l, r = l+1, r-1 {
				ops[l], ops[r] = ops[r], ops[l]
			}
		}
		return map[string]any{ast["k"].(string): ops}
	case "ite":
		return map[string]any{"if": renderFormula(ast["c"].(map[string]any), kinds, spell), "then": renderFormula(ast["t"].(map[string]any), kinds, spell)}
	case "itee":
		return map[string]any{"if": renderFormula(ast["c"].(map[string]any), kinds, spell), "then": renderFormula(ast["t"].(map[string]any), kinds, spell),
			"else": renderFormula(ast["e"].(map[string]any), kinds, spell)}
	case "q":
		inner := renderFormula(ast["x"].(map[string]any), kinds, spell)
		path := "ex." + ast["p"].(string)
		switch ast["q"] {
		case "nested":
			return map[string]any{"propertyConstraints": map[string]any{path: map[string]any{"nested": inner}}}
		default:
			return map[string]any{"propertyConstraints": map[string]any{path: map[string]any{
				ast["q"].(string): map[string]any{"count": asInt(ast["n"]), "validation": inner}}}}
		}
	}
	panic(fmt.Sprintf("unknown formula node %v", ast["k"]))
}

func renderLogicProfile(fs []logicFormula, kinds []int, spell int) string {
	return renderLogicProfileLevels(fs, kinds, spell, nil)
}

// logicMessages overrides the message of a validation (fid -> any YAML value, e.g. a number or null)
var logicMessages map[string]any

func renderLogicProfileLevels(fs []logicFormula, kinds []int, spell int, level map[string]string) string {
	names := map[string][]any{}
	vals := map[string]any{}
	for _, f := range fs {
		l := level[f.FID]
		if l == "" {
			l = "violation"
		}
		names[l] = append(names[l], f.FID)
		v := renderFormula(f.AST, kinds, spell)
		v["targetClass"] = "ex.T"
		v["message"] = "formula " + f.FID
		if m, ok := logicMessages[f.FID]; ok {
			if m == "ABSENT" {
				delete(v, "message")
			} else {
				v["message"] = m
			}
		}
		vals[f.FID] = v
	}
	doc := map[string]any{"profile": "logic", "prefixes": map[string]any{"ex": exNS}, "validations": vals}
	for l, ns := range names {
		if level != nil {
			// a level list may name validations that are not defined (removed, commented out): they are ignored, and
			// they must not disturb the validations listed after them
			ns = append(append([]any{"listed-but-not-defined"}, ns...), "also-not-defined")
		}
		doc[l] = ns
	}
	b, err := yaml.Marshal(doc)
	if err != nil {
		panic(err)
	}
	return "#%Validation Profile 1.0\n" + string(b)
}

func renderLogicWorld(w logicWorld, kinds []int) string {
	target := map[string]bool{}
	for _, t := range w.Targets {
		target[t] = true
	}
	names := make([]string, 0, len(w.Nodes))
	for n := range w.Nodes {
		names = append(names, n)
	}
	sort.Strings(names)
	var graph []any
	for _, name := range names {
		n := w.Nodes[name]
		node := map[string]any{"@id": nodeNS + name}
		// a target is an instance of T, alone or among other classes; a decoy is not, whatever its class names look like
		switch k := len(graph) % 3; {
		case target[name] && k == 0:
			node["@type"] = []any{exNS + "T"}
		case target[name] && k == 1:
			node["@type"] = []any{exNS + "Other", exNS + "T", exNS + "Third"}
		case target[name]:
			node["@type"] = []any{exNS + "T", "http://example.org/other#T"}
		case k == 0:
			node["@type"] = []any{exNS + "C"}
		case k == 1:
			node["@type"] = []any{exNS + "Tx", exNS + "xT", "http://example.org/other#T"}
		default:
			node["@type"] = []any{exNS + "t", "http://example.org/ns/T"}
		}
		for i, tv := range n.Val {
			if i >= len(kinds) {
				break
			}
			k := atomKinds[kinds[i]]
			vals, other := k.fvals, k.fother
			if tv {
				vals, other = k.tvals, k.tother
			}
			if len(vals) > 0 {
				node[fmt.Sprintf("%sa%d", exNS, i+1)] = wrapValues(vals)
			}
			if len(other) > 0 {
				node[fmt.Sprintf("%sb%d", exNS, i+1)] = wrapValues(other)
			}
		}
		for p, kids := range n.Kids {
			var refs []any
			for _, kd := range kids {
				refs = append(refs, map[string]any{"@id": nodeNS + kd})
			}
			if len(refs) > 0 {
				node[exNS+p] = refs
			}
		}
		graph = append(graph, node)
	}
	b, _ := json.Marshal(graph)
	return string(b)
}

func wrapValues(vs []any) []any {
	out := make([]any, len(vs))
	for i, v := range vs {
		out[i] = map[string]any{"@value": v}
	}
	return out
}

// projectReport returns, per validation name, the sorted set of focus nodes reported with Violation severity.
func projectReport(rep string) (map[string][]string, map[string][]string, int, error) {
	var doc []map[string]any
	if err := json.Unmarshal([]byte(rep), &doc); err != nil {
		return nil, nil, 0, err
	}
	if len(doc) != 1 {
		return nil, nil, 0, fmt.Errorf("report is not a single dialect instance")
	}
	enc, _ := doc[0]["doc:encodes"].([]any)
	if len(enc) != 1 {
		return nil, nil, 0, fmt.Errorf("report does not encode one node")
	}
	node, _ := enc[0].(map[string]any)
	res, _ := node["result"].([]any)
	sets := map[string]map[string]bool{}
	alien := map[string][]string{}
	for _, r := range res {
		m, _ := r.(map[string]any)
		name, _ := m["sourceShapeName"].(string)
		focus, _ := m["focusNode"].(string)
		sev, _ := m["resultSeverity"].(string)
		if sev != "http://www.w3.org/ns/shacl#Violation" {
			alien[name] = append(alien[name], "severity:"+sev)
			continue
		}
		if sets[name] == nil {
			sets[name] = map[string]bool{}
		}
		sets[name][strings.TrimPrefix(focus, nodeNS)] = true
	}
	out := map[string][]string{}
	for n, s := range sets {
		for f := range s {
			out[n] = append(out[n], f)
		}
		sort.Strings(out[n])
	}
	return out, alien, len(res), nil
}

func runLogicBatch(fs []logicFormula, c logicCase, data string) ([]logicFormulaObs, error) {
	prof := renderLogicProfile(fs, c.Kinds, c.Spell)
	repCfg := config.DefaultReportConfiguration()
	rep, err := pkg.ValidateWithConfiguration(prof, data, false, nil, clockA, repCfg)
	if err != nil {
		return nil, fmt.Errorf("validate: %v", err)
	}
	h, err := pkg.CompileProfile(prof, false, nil)
	if err != nil {
		return nil, fmt.Errorf("compile: %v", err)
	}
	rep2, err := pkg.ValidateCompiledWithConfiguration(h, data, false, nil, clockA, repCfg)
	if err != nil {
		return nil, fmt.Errorf("validateCompiled: %v", err)
	}
	s1, alien, nres, err := projectReport(rep)
	if err != nil {
		return nil, err
	}
	s2, _, _, err := projectReport(rep2)
	if err != nil {
		return nil, err
	}
	known := map[string]bool{}
	var out []logicFormulaObs
	for _, f := range fs {
		known[f.FID] = true
		o := logicFormulaObs{FID: f.FID, Validate: s1[f.FID], Compiled: s2[f.FID], Alien: alien[f.FID], Results: nres}
		if o.Validate == nil {
			o.Validate = []string{}
		}
		if o.Compiled == nil {
			o.Compiled = []string{}
		}
		out = append(out, o)
	}
	for n := range s1 {
		if !known[n] {
			out[0].Alien = append(out[0].Alien, "unknown validation "+n)
		}
	}
	return out, nil
}

func runLogic(c logicCase) (obs logicObs) {
	obs.ID = c.ID
	data := renderLogicWorld(c.World, c.Kinds)
	safe := func(fs []logicFormula) (r []logicFormulaObs, err error) {
		defer func() {
			if p := recover(); p != nil {
				err = fmt.Errorf("panic: %v", p)
			}
		}()
		return runLogicBatch(fs, c, data)
	}
	r, err := safe(c.Formulas)
	if err == nil {
		obs.Formulas = r
		return
	}
	obs.Fallback = true
	for _, f := range c.Formulas {
		r, err := safe([]logicFormula{f})
		if err != nil {
			obs.Formulas = append(obs.Formulas, logicFormulaObs{FID: f.FID, Err: err.Error(), Validate: []string{}, Compiled: []string{}})
		} else {
			obs.Formulas = append(obs.Formulas, r...)
		}
	}
	return
}

func init() {
	commands["logic"] = func(args []string) error {
		if len(args) != 2 {
			return fmt.Errorf("usage: acvh logic <cases.ndjson> <out.ndjson>")
		}
		w, err := newNDWriter(args[1])
		if err != nil {
			return err
		}
		if err := readLines(args[0], func(b []byte) error {
			var c logicCase
			if err := json.Unmarshal(b, &c); err != nil {
				return err
			}
			return w.write(runLogic(c))
		}); err != nil {
			return err
		}
		return w.close()
	}
	commands["logic-render"] = func(args []string) error {
		return readLines(args[0], func(b []byte) error {
			var c logicCase
			if err := json.Unmarshal(b, &c); err != nil {
				return err
			}
			fmt.Println(renderLogicProfile(c.Formulas, c.Kinds, c.Spell))
			fmt.Println(renderLogicWorld(c.World, c.Kinds))
			return nil
		})
	}
}
