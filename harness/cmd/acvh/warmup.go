package main

import (
	"fmt"
	"os"
	"runtime"
	"strings"
	"time"

	"github.com/aml-org/amf-custom-validator/pkg"
	"github.com/aml-org/amf-custom-validator/pkg/config"
)

// warmup gives every harness process a history before the observations start: profiles that rebind the built-in
// prefixes, profiles that use prefixes other profiles declare, one failure at every pipeline stage, unreadable data,
// successful validations under two report configurations.  None of it may influence what is observed afterwards --
// every property is stated for calls made in ANY process state, not only in a fresh one.  All results are ignored.
const warmupRebind = `#%Validation Profile 1.0
profile: warmup rebinding the built-in prefixes
prefixes:
  data: http://warmup.invalid/data#
  shacl: http://warmup.invalid/shacl#
  shapes: http://warmup.invalid/shapes#
  raml-shapes: http://warmup.invalid/raml-shapes#
  doc: http://warmup.invalid/doc#
  meta: http://warmup.invalid/meta#
  apiContract: http://warmup.invalid/apiContract#
  core: http://warmup.invalid/core#
  xsd: http://warmup.invalid/xsd#
  rdfs: http://warmup.invalid/rdfs#
  rdf: http://warmup.invalid/rdf#
  security: http://warmup.invalid/security#
  sourcemaps: http://warmup.invalid/sourcemaps#
  gcl: http://warmup.invalid/gcl#
  management: http://warmup.invalid/management#
  api: http://warmup.invalid/api#
  catalog: http://warmup.invalid/catalog#
violation:
  - w
validations:
  w:
    targetClass: core.Thing
    message: "{{core.name}} {{ shacl.name }}"
    propertyConstraints:
      shapes.schema / shacl.name:
        minCount: 1
        datatype: xsd.string
      doc.encodes | apiContract.endpoint^:
        maxCount: 3
`

const warmupUndeclared = `#%Validation Profile 1.0
profile: warmup using prefixes it does not declare
violation:
  - w
validations:
  w:
    targetClass: ex.T
    message: "{{ex.p}} {{ ex.p1 }} {{ex.p2}} {{other.w2}} {{zz.p}} {{my-ns.p}} {{core.name}}"
    propertyConstraints:
      ex.p / other.kid | zz.q^ / my-ns.r:
        minCount: 1
      ex.a1:
        datatype: ex.string
        lessThanProperty: other.b1
`

// the prefix and local names the checks themselves use, bound to OTHER namespaces: the api-extension namespace (whose
// properties are traversed differently), a namespace that extends the one the checks use, and one that is a prefix of it
const warmupShadowTmpl = `#%%Validation Profile 1.0
profile: warmup binding the checks' own prefix elsewhere
prefixes:
  ex: %s
  apiExt: http://warmup.invalid/not-the-extension-namespace#
violation:
  - w
validations:
  w:
    targetClass: ex.T
    message: "{{ex.p}} {{ex.q}}"
    propertyConstraints:
      ex.p / ex.q | ex.r^:
        minCount: 1
      ex.child / ex.other:
        maxCount: 2
      ex.a1 | ex.a2 | ex.a3 | ex.a4:
        minCount: 1
      ex.b1 / ex.b2:
        minCount: 1
      ex.num | ex.str | ex.name | ex.p1 | ex.p2:
        minCount: 1
      apiExt.owner / ex.name:
        minCount: 1
      ex.C | ex.Other | ex.T:
        maxCount: 5
`

// a text that is not JSON, longer than any read buffer, whose error is found in its first bytes
var warmupLongGarbage = "#%RAML 1.0\ntitle: not a JSON document\n" + strings.Repeat("description: this text is not JSON-LD and must never be remembered by anything\n", 40)

// compiles, but evaluation fails on any graph with two or more nodes (a complete rule with conflicting values)
const warmupEvalError = `#%Validation Profile 1.0
profile: warmup failing in evaluation
prefixes:
  wu: http://warmup.invalid/ns#
rego_extensions: |
  warmup_conflict = x {
    x := input["@ids"][_]["@id"]
  }
violation:
  - w
validations:
  w:
    targetClass: wu.T
    message: never
    rego: |
      $result = (warmup_conflict == "zzz")
`

const warmupOk = `#%Validation Profile 1.0
profile: warmup
prefixes:
  wu: http://warmup.invalid/ns#
violation:
  - w
warning:
  - w2
validations:
  w:
    targetClass: wu.T
    message: missing
    propertyConstraints:
      wu.p:
        minCount: 1
  w2:
    targetClass: wu.T
    message: nested
    propertyConstraints:
      wu.child:
        nested:
          propertyConstraints:
            wu.q:
              in: [ a, b ]
`

const warmupData = `[{"@id": "http://warmup.invalid/n1", "@type": ["http://warmup.invalid/ns#T"],
  "http://warmup.invalid/ns#child": [{"@id": "http://warmup.invalid/n2"}]},
 {"@id": "http://warmup.invalid/n2", "@type": ["http://warmup.invalid/ns#T"], "http://warmup.invalid/ns#p": "x", "http://warmup.invalid/ns#q": "c"}]`

func quiet(f func()) {
	defer func() { recover() }()
	f()
}

func warmup() {
	alt := config.DefaultReportConfiguration()
	alt.ReportSchemaIri, alt.LexicalSchemaIri = altReportSchema, altLexicalSchema
	altLex := config.DefaultReportConfiguration()
	altLex.LexicalSchemaIri = altLexicalSchema
	done := make(chan struct{})
	go func() {
		defer close(done)
		for _, prof := range []string{warmupRebind, warmupUndeclared,
			fmt.Sprintf(warmupShadowTmpl, "http://a.ml/vocabularies/api-extension#"),
			fmt.Sprintf(warmupShadowTmpl, "http://example.org/ns#deeper/"),
			fmt.Sprintf(warmupShadowTmpl, "http://example.org/"), "", "a: [b", "profile: x\nviolation: [v]\nvalidations:\n  v:\n    targetClass: nope.T\n    propertyConstraints:\n      nope.p:\n        minCount: 1\n",
			"profile: x\nviolation: [v]\nvalidations:\n  v:\n    targetClass: doc.Unit\n    rego: |\n      $result = ((\n"} {
			prof := prof
			quiet(func() { pkg.CompileProfile(prof, false, nil) })
			quiet(func() { pkg.Validate(prof, warmupData, true, nil) })
		}
		for _, data := range []string{warmupLongGarbage, "", "{", `{"@context": 5}`, `{"@context": {"a": {"@id": "http://a.ml/a", "@container": null}}, "a": 1}`, "{}", warmupData} {
			data := data
			quiet(func() { pkg.Validate(warmupOk, data, false, nil) })
			quiet(func() { pkg.ValidateWithConfiguration(warmupOk, data, false, nil, clockB, alt) })
			quiet(func() { pkg.ValidateWithConfiguration(warmupOk, data, true, nil, clockA, altLex) })
		}
		// more failed evaluations than there are processors (whatever a failed call holds on to must be given back)
		for i := 0; i < 2*runtime.NumCPU()+2; i++ {
			quiet(func() { pkg.Validate(warmupEvalError, warmupData, false, nil) })
		}
		quiet(func() {
			if h, err := pkg.CompileProfile(warmupEvalError, false, nil); err == nil {
				for i := 0; i < 4; i++ {
					pkg.ValidateCompiled(h, warmupData, false, nil)
				}
			}
		})
		// the process must still be usable afterwards
		quiet(func() {
			h, err := pkg.CompileProfile(warmupOk, false, nil)
			if err == nil {
				pkg.ValidateCompiled(h, warmupData, false, nil)
			}
		})
	}()
	select {
	case <-done:
	case <-time.After(60 * time.Second):
		fmt.Fprintln(os.Stderr, "BLOCKED-AFTER-WARMUP: a validation did not return within 60 s after earlier calls failed in this process")
		os.Exit(3)
	}
}
