package main

import (
	"encoding/json"
	"fmt"
	"runtime"
	"sync"

	"github.com/aml-org/amf-custom-validator/pkg"
	"github.com/aml-org/amf-custom-validator/pkg/config"
	"github.com/aml-org/amf-custom-validator/pkg/verifexport"
	"github.com/open-policy-agent/opa/rego"
)

// concurrent: a call schedule (one list of calls per goroutine, produced by
// TLC simulation of ACV with several procs) is executed for real: first every
// distinct call alone (the "solo" value), then all goroutines released
// together.  Each call logs key + report hash; compiled handles returned by
// concurrent CompileProfile calls are afterwards probed on fixed documents.
// The identifier counter is observed through hook H3.
type concCall struct {
	Entry  string `json:"entry"` // validate | compile | validateCompiled
	PKey   string `json:"pkey"`
	DKey   string `json:"dkey"`
	Shared int    `json:"shared"` // index of the shared precompiled handle (validateCompiled)
}

type concCase struct {
	ID         string            `json:"id"`
	Profiles   map[string]string `json:"profiles"`
	Docs       map[string]string `json:"docs"`
	DClasses   map[string]string `json:"dclasses"`
	PClasses   map[string]string `json:"pclasses"`
	SharedP    []string          `json:"sharedProfiles"` // pkey per shared handle
	Goroutines [][]concCall      `json:"goroutines"`
	Probes     []string          `json:"probes"`
	Rounds     int               `json:"rounds"`
	Yield      bool              `json:"yield"`
}

type concObs struct {
	histObs
	Genvars  [][]int `json:"genvars"` // values handed out, per phase (solo, concurrent)
	NThreads int     `json:"nthreads"`
}

func runConcurrent(c concCase) concObs {
	var obs concObs
	obs.ID, obs.Entry, obs.Chan, obs.PClass, obs.DClass = c.ID, "concurrent", "none", "unknown", "unknown"
	obs.Calls = []histCall{}
	obs.Milestones = []msObs{}
	obs.NThreads = len(c.Goroutines)
	repCfg := config.DefaultReportConfiguration()
	var mu sync.Mutex
	var vals []int
	verifexport.SetGenvarHook(func(hint string, v int) {
		mu.Lock()
		vals = append(vals, v)
		mu.Unlock()
		if c.Yield {
			runtime.Gosched()
		}
	})
	defer verifexport.SetGenvarHook(nil)
	verifexport.GenReset()

	mk := func(entry, pkey, dkey string, o outcome) histCall {
		co := callObs{Entry: entry, Kind: o.kind, Err: o.err, Panic: o.pmsg, Events: []int{}, TimesOK: true}
		if o.kind == "report" {
			co.Conforms, co.Sha = reportFacts(o.report)
		}
		return histCall{callObs: co, PKey: pkey, DKey: dkey, DClass: c.DClasses[dkey]}
	}
	compile := func(pkey string) outcome {
		return guarded(func() (string, *rego.PreparedEvalQuery, error) {
			h, err := pkg.CompileProfile(c.Profiles[pkey], false, nil)
			if err != nil {
				return "", h, err
			}
			return "", h, nil
		})
	}
	validate := func(pkey, dkey string) outcome {
		return guarded(func() (string, *rego.PreparedEvalQuery, error) {
			r, err := pkg.ValidateWithConfiguration(c.Profiles[pkey], c.Docs[dkey], false, nil, clockA, repCfg)
			return r, nil, err
		})
	}
	validateCompiled := func(h *rego.PreparedEvalQuery, dkey string) outcome {
		return guarded(func() (string, *rego.PreparedEvalQuery, error) {
			r, err := pkg.ValidateCompiledWithConfiguration(h, c.Docs[dkey], false, nil, clockA, repCfg)
			return r, nil, err
		})
	}

	// phase 0: solo values, sequentially
	seen := map[string]bool{}
	for _, g := range c.Goroutines {
		for _, call := range g {
			if call.Entry == "compile" {
				for _, d := range c.Probes {
					k := call.PKey + "|" + d
					if !seen[k] {
						seen[k] = true
						obs.Calls = append(obs.Calls, mk("validate", call.PKey, d, validate(call.PKey, d)))
					}
				}
				continue
			}
			pk := call.PKey
			if call.Entry == "validateCompiled" {
				pk = c.SharedP[call.Shared]
			}
			k := pk + "|" + call.DKey
			if !seen[k] {
				seen[k] = true
				obs.Calls = append(obs.Calls, mk("validate", pk, call.DKey, validate(pk, call.DKey)))
			}
		}
	}
	shared := make([]*rego.PreparedEvalQuery, len(c.SharedP))
	for i, pk := range c.SharedP {
		o := compile(pk)
		if o.kind != "handle" {
			obs.Skipped = "shared compile:" + o.kind
			return obs
		}
		shared[i] = o.h
	}
	mu.Lock()
	obs.Genvars = append(obs.Genvars, vals)
	vals = nil
	mu.Unlock()
	verifexport.GenReset()

	// phase 1: all goroutines released together, Rounds times
	rounds := c.Rounds
	if rounds < 1 {
		rounds = 1
	}
	type res struct {
		call histCall
		h    *rego.PreparedEvalQuery
	}
	results := make([][]res, len(c.Goroutines))
	var wg sync.WaitGroup
	start := make(chan struct{})
	for gi, g := range c.Goroutines {
		wg.Add(1)
		go func(gi int, g []concCall) {
			defer wg.Done()
			<-start
			for r := 0; r < rounds; r++ {
				for _, call := range g {
					switch call.Entry {
					case "compile":
						o := compile(call.PKey)
						results[gi] = append(results[gi], res{mk("compile", call.PKey, "", o), o.h})
					case "validate":
						results[gi] = append(results[gi], res{mk("validate", call.PKey, call.DKey, validate(call.PKey, call.DKey)), nil})
					case "validateCompiled":
						pk := c.SharedP[call.Shared]
						results[gi] = append(results[gi], res{mk("validateCompiled", pk, call.DKey, validateCompiled(shared[call.Shared], call.DKey)), nil})
					}
				}
			}
		}(gi, g)
	}
	close(start)
	wg.Wait()
	mu.Lock()
	obs.Genvars = append(obs.Genvars, vals)
	vals = nil
	mu.Unlock()
	for _, rs := range results {
		for _, r := range rs {
			obs.Calls = append(obs.Calls, r.call)
			if r.call.Entry == "compile" && r.h != nil && r.call.Kind == "handle" {
				// probe the handle compiled under concurrency
				for _, d := range c.Probes {
					obs.Calls = append(obs.Calls, mk("validateCompiled", r.call.PKey, d, validateCompiled(r.h, d)))
				}
			}
		}
	}
	return obs
}

func init() {
	commands["concurrent"] = func(args []string) error {
		if len(args) != 2 {
			return fmt.Errorf("usage: acvh concurrent <cases.ndjson> <out.ndjson>")
		}
		w, err := newNDWriter(args[1])
		if err != nil {
			return err
		}
		if err := readLines(args[0], func(b []byte) error {
			var c concCase
			if err := json.Unmarshal(b, &c); err != nil {
				return err
			}
			return w.write(runConcurrent(c))
		}); err != nil {
			return err
		}
		return w.close()
	}
}
