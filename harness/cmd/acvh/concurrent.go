package main

import (
	"encoding/json"
	"fmt"
	"runtime"
	"sync"

	"github.com/aml-org/amf-custom-validator/pkg"
	"github.com/aml-org/amf-custom-validator/pkg/config"
	"github.com/aml-org/amf-custom-validator/pkg/verifexport"
	"github.com/open-policy-agent/opa/rego"
)

// concurrent: a call schedule (one list of calls per goroutine, produced by
// TLC simulation of ACV with several procs) is executed for real: first every
// distinct call alone (the "solo" value), then all goroutines released
// together.  Each call logs key + report hash; compiled handles returned by
// concurrent CompileProfile calls are afterwards probed on fixed documents.
// The identifier counter is observed through hook H3.
type concCall struct {
	Entry  string `json:"entry"` // validate | compile | validateCompiled
	PKey   string `json:"pkey"`
	DKey   string `json:"dkey"`
	Shared int    `json:"shared"` // index of the shared precompiled handle (validateCompiled)
	Cfg    string `json:"cfg"`    // report configuration: "" / "default" | "alt"
}

type concCase struct {
	ID         string            `json:"id"`
	Profiles   map[string]string `json:"profiles"`
	Docs       map[string]string `json:"docs"`
	DClasses   map[string]string `json:"dclasses"`
	PClasses   map[string]string `json:"pclasses"`
	SharedP    []string          `json:"sharedProfiles"` // pkey per shared handle
	Goroutines [][]concCall      `json:"goroutines"`
	Probes     []string          `json:"probes"`
	Rounds     int               `json:"rounds"`
	Yield      bool              `json:"yield"`
}

type concObs struct {
	histObs
	Genvars  [][]int `json:"genvars"` // identifier counter values handed out, one list per compilation (call)
	NThreads int     `json:"nthreads"`
}

func runConcurrent(c concCase) concObs {
	var obs concObs
	obs.ID, obs.Entry, obs.Chan, obs.PClass, obs.DClass = c.ID, "concurrent", "none", "unknown", "unknown"
	obs.Calls = []histCall{}
	obs.Milestones = []msObs{}
	obs.NThreads = len(c.Goroutines)
	// the hook runs in the goroutine that is compiling: values are attributed to that goroutine's current call
	var mu sync.Mutex
	perCall := map[uint64][][]int{}
	verifexport.SetGenvarHook(func(hint string, v int) {
		g := goid()
		mu.Lock()
		if len(perCall[g]) == 0 {
			perCall[g] = [][]int{{}}
		}
		last := len(perCall[g]) - 1
		perCall[g][last] = append(perCall[g][last], v)
		mu.Unlock()
		if c.Yield {
			runtime.Gosched()
		}
	})
	defer verifexport.SetGenvarHook(nil)
	newCall := func() { // a new compilation starts in the calling goroutine
		g := goid()
		mu.Lock()
		perCall[g] = append(perCall[g], []int{})
		mu.Unlock()
	}
	flush := func() {
		mu.Lock()
		for _, calls := range perCall {
			for _, vs := range calls {
				if len(vs) > 0 {
					obs.Genvars = append(obs.Genvars, vs)
				}
			}
		}
		perCall = map[uint64][][]int{}
		mu.Unlock()
	}
	verifexport.GenReset()

	mk := func(entry, pkey, dkey string, o outcome) histCall {
		co := callObs{Entry: entry, Kind: o.kind, Err: o.err, Panic: o.pmsg, Events: []int{}, TimesOK: true}
		if o.kind == "report" {
			co.Conforms, co.Sha = reportFacts(o.report)
		}
		return histCall{callObs: co, PKey: pkey, DKey: dkey, DClass: c.DClasses[dkey], PClass: c.PClasses[pkey]}
	}
	cfgOf := func(name string) config.ReportConfiguration {
		rc := config.DefaultReportConfiguration()
		if name == "alt" {
			rc.ReportSchemaIri, rc.LexicalSchemaIri = altReportSchema, altLexicalSchema
		}
		return rc
	}
	compile := func(pkey string) outcome {
		return guarded(func() (string, *rego.PreparedEvalQuery, error) {
			newCall()
			h, err := pkg.CompileProfile(c.Profiles[pkey], false, nil)
			if err != nil {
				return "", h, err
			}
			return "", h, nil
		})
	}
	validate := func(pkey, dkey, cfg string) outcome {
		return guarded(func() (string, *rego.PreparedEvalQuery, error) {
			newCall()
			r, err := pkg.ValidateWithConfiguration(c.Profiles[pkey], c.Docs[dkey], false, nil, clockA, cfgOf(cfg))
			return r, nil, err
		})
	}
	validateCompiled := func(h *rego.PreparedEvalQuery, dkey, cfg string) outcome {
		return guarded(func() (string, *rego.PreparedEvalQuery, error) {
			r, err := pkg.ValidateCompiledWithConfiguration(h, c.Docs[dkey], false, nil, clockA, cfgOf(cfg))
			return r, nil, err
		})
	}
	dk := func(dkey, cfg string) string { // the report is a function of (profile, doc, configuration)
		if cfg == "alt" {
			return dkey + "@alt"
		}
		return dkey
	}

	// phase 0: solo values, sequentially
	seen := map[string]bool{}
	for _, g := range c.Goroutines {
		for _, call := range g {
			if call.Entry == "compile" {
				for _, d := range c.Probes {
					k := call.PKey + "|" + d
					if !seen[k] {
						seen[k] = true
						obs.Calls = append(obs.Calls, mk("validate", call.PKey, d, validate(call.PKey, d, "")))
					}
				}
				continue
			}
			pk := call.PKey
			if call.Entry == "validateCompiled" {
				pk = c.SharedP[call.Shared]
			}
			k := pk + "|" + dk(call.DKey, call.Cfg)
			if !seen[k] {
				seen[k] = true
				o := validate(pk, call.DKey, call.Cfg)
				hc := mk("validate", pk, dk(call.DKey, call.Cfg), o)
				hc.DClass = c.DClasses[call.DKey]
				obs.Calls = append(obs.Calls, hc)
			}
		}
	}
	shared := make([]*rego.PreparedEvalQuery, len(c.SharedP))
	for i, pk := range c.SharedP {
		o := compile(pk)
		if o.kind != "handle" {
			obs.Skipped = "shared compile:" + o.kind
			return obs
		}
		shared[i] = o.h
	}
	flush()
	verifexport.GenReset()

	// phase 1: all goroutines released together, Rounds times
	rounds := c.Rounds
	if rounds < 1 {
		rounds = 1
	}
	type res struct {
		call histCall
		h    *rego.PreparedEvalQuery
	}
	results := make([][]res, len(c.Goroutines))
	var wg sync.WaitGroup
	start := make(chan struct{})
	for gi, g := range c.Goroutines {
		wg.Add(1)
		go func(gi int, g []concCall) {
			defer wg.Done()
			<-start
			for r := 0; r < rounds; r++ {
				for _, call := range g {
					switch call.Entry {
					case "compile":
						o := compile(call.PKey)
						results[gi] = append(results[gi], res{mk("compile", call.PKey, "", o), o.h})
					case "validate":
						hc := mk("validate", call.PKey, dk(call.DKey, call.Cfg), validate(call.PKey, call.DKey, call.Cfg))
						hc.DClass = c.DClasses[call.DKey]
						results[gi] = append(results[gi], res{hc, nil})
					case "validateCompiled":
						pk := c.SharedP[call.Shared]
						hc := mk("validateCompiled", pk, dk(call.DKey, call.Cfg), validateCompiled(shared[call.Shared], call.DKey, call.Cfg))
						hc.DClass = c.DClasses[call.DKey]
						results[gi] = append(results[gi], res{hc, nil})
					}
				}
			}
		}(gi, g)
	}
	close(start)
	wg.Wait()
	flush()
	for _, rs := range results {
		for _, r := range rs {
			obs.Calls = append(obs.Calls, r.call)
			if r.call.Entry == "compile" && r.h != nil && r.call.Kind == "handle" {
				// probe the handle compiled under concurrency
				for _, d := range c.Probes {
					obs.Calls = append(obs.Calls, mk("validateCompiled", r.call.PKey, d, validateCompiled(r.h, d, "")))
				}
			}
		}
	}
	return obs
}

// goid returns the id of the calling goroutine (parsed from the stack header; used only to attribute hook events)
func goid() uint64 {
	var buf [64]byte
	n := runtime.Stack(buf[:], false)
	var id uint64
	for _, ch := range buf[len("goroutine "):n] {
		if ch < '0' || ch > '9' {
			break
		}
		id = id*10 + uint64(ch-'0')
	}
	return id
}

func init() {
	commands["concurrent"] = func(args []string) error {
		if len(args) != 2 {
			return fmt.Errorf("usage: acvh concurrent <cases.ndjson> <out.ndjson>")
		}
		w, err := newNDWriter(args[1])
		if err != nil {
			return err
		}
		if err := readLines(args[0], func(b []byte) error {
			var c concCase
			if err := json.Unmarshal(b, &c); err != nil {
				return err
			}
			return w.write(runConcurrent(c))
		}); err != nil {
			return err
		}
		return w.close()
	}
}
