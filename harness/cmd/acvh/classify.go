package main

import (
	"bytes"
	"encoding/json"
	"fmt"
	"io"
	"strings"

	"github.com/piprate/json-gold/ld"
)

// classify decides, independently of the code under test, which input class
// of the specification a data text belongs to: whether a complete JSON value
// can be read from it, whether JSON-LD processing accepts it, and how many
// nodes the flattened graph has.
type classifyIn struct {
	ID   string `json:"id"`
	Data string `json:"data"`
}
type classifyOut struct {
	ID     string `json:"id"`
	JSONOK bool   `json:"jsonOK"`
	LDOK   bool   `json:"ldOK"`
	Nodes  int    `json:"nodes"`
	Class  string `json:"class"` // notJson | ldReject | okNoNodes | ok | unknown
	Panic  bool   `json:"panic"` // json-gold itself panicked (still "JSON-LD processing rejects it")
}

func classifyData(text string) classifyOut {
	var o classifyOut
	dec := json.NewDecoder(bytes.NewBufferString(text))
	dec.UseNumber()
	var v any
	if err := dec.Decode(&v); err != nil {
		o.Class = "notJson"
		return o
	}
	o.JSONOK = true
	// a JSON-LD document is ONE JSON object or array: a bare scalar, or a value followed by anything but white space, is
	// JSON from which a value can be read but not a JSON-LD document -- no class of the specification says what to do
	rest, _ := io.ReadAll(dec.Buffered())
	off := int(dec.InputOffset()) + len(rest)
	if off > len(text) {
		off = len(text)
	}
	tail := string(rest) + text[off:]
	switch v.(type) {
	case map[string]any, []any:
	default:
		o.Class = "unknown"
		return o
	}
	if strings.TrimSpace(tail) != "" {
		o.Class = "unknown"
		return o
	}
	func() {
		defer func() {
			if r := recover(); r != nil {
				o.LDOK = false
				o.Panic = true
			}
		}()
		proc := ld.NewJsonLdProcessor()
		opts := ld.NewJsonLdOptions("")
		flat, err := proc.Flatten(v, map[string]any{}, opts)
		if err != nil {
			return
		}
		o.LDOK = true
		if m, ok := flat.(map[string]any); ok {
			if g, ok := m["@graph"].([]any); ok {
				o.Nodes = len(g)
			}
		}
	}()
	switch {
	case !o.LDOK:
		o.Class = "ldReject"
	case o.Nodes == 0:
		o.Class = "okNoNodes"
	default:
		o.Class = "ok"
	}
	return o
}

func init() {
	commands["classify"] = func(args []string) error {
		if len(args) != 2 {
			return fmt.Errorf("usage: acvh classify <in.ndjson> <out.ndjson>")
		}
		w, err := newNDWriter(args[1])
		if err != nil {
			return err
		}
		if err := readLines(args[0], func(b []byte) error {
			var c classifyIn
			if err := json.Unmarshal(b, &c); err != nil {
				return err
			}
			o := classifyData(c.Data)
			o.ID = c.ID
			return w.write(o)
		}); err != nil {
			return err
		}
		return w.close()
	}
}
