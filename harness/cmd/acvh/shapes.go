package main

import (
	"encoding/json"
	"fmt"
	"strings"

	"github.com/aml-org/amf-custom-validator/pkg"
	"github.com/aml-org/amf-custom-validator/pkg/config"
	"gopkg.in/yaml.v3"
)

// shapes: renders an abstract profile shape (spec/ShapeCases.tla) as a
// well-formed declarative profile, compiles it with CompileProfile and runs
// it once on a small graph.  The oracle is the engine itself.
type shapeCase struct {
	ID          string `json:"id"`
	Kind        string `json:"kind"`
	Path        string `json:"path"`
	Ctx         string `json:"ctx"`
	Siblings    int    `json:"siblings"`
	Depth       int    `json:"depth"`
	Quant       string `json:"quant"`
	Validations int    `json:"validations"`
	Listing     string `json:"listing"` // how the first validation is listed: once | twoLevels | threeLevels | twiceInLevel
}

type shapeObs struct {
	ID       string `json:"id"`
	Compiled bool   `json:"compiled"`
	Err      string `json:"err,omitempty"`
	Ran      string `json:"ran"` // report | error | panic
	RunErr   string `json:"runErr,omitempty"`
	Profile  string `json:"profile,omitempty"`
}

var shapePaths = map[string]string{
	"pred": "ex.p", "seq": "ex.p / ex.q", "alt": "ex.p | ex.q", "inverse": "ex.p^", "altInSeq": "ex.p / (ex.q | ex.r)",
	"seqInAlt": "(ex.p / ex.q) | ex.r", "type": "@type", "altMixedInverse": "ex.p | ex.q^", "seq3": "ex.p / ex.q / ex.r",
	"altOfAlt": "(ex.p | ex.q) | (ex.r | ex.p^)", "underscore": "ex.has_name / ex.x_y_z",
	"seqThenAltMixed": "ex.p / (ex.q^ | ex.r)", "seqThenAltMixedRev": "ex.p / (ex.r | ex.q^)",
	"seq2ThenAltMixed": "ex.p / ex.q / (ex.r^ | ex.p)", "seq2ThenAltMixedRev": "ex.p / ex.q / (ex.p | ex.r^)",
	"seq24":    strings.TrimSuffix(strings.Repeat("ex.p / ex.q / ex.other / ", 8), " / "),
}

// regular expressions a profile may legitimately use (the pattern is pasted into the policy by the translator)
var shapePatterns = []string{"^[a-z]+$", "a`b", "^\\d+\"x\"$", "100%", "back\\\\slash", "`", "'quoted'"}
var shapeRot = 0

var shapeTexts = []string{"", " bell\a", " esc\x1b[31m red", " tag\U000E0067", " q\"uote", " back\\slash", " 100%", " {{ex.p}} and %", " tab\tnew\nline", " vt\v del\x7f",
	" {{ex.p}} {{ ex.p }} {{ex.q}}", " {{core.name}} {{ex.q}} {{core.name}} {{ex.p}}"}

func simpleExpr(prop string) map[string]any {
	return map[string]any{"propertyConstraints": map[string]any{prop: map[string]any{"minCount": 1}}}
}

func leafConstraint(kind string) map[string]any {
	switch kind {
	case "minCount", "maxCount", "exactCount", "minLength", "maxLength", "exactLength":
		return map[string]any{kind: 2}
	case "pattern":
		return map[string]any{"pattern": shapePatterns[shapeRot%len(shapePatterns)]}
	case "in", "containsAll", "containsSome":
		return map[string]any{kind: []any{"a", "b", 3, "$message", "$node and $result", true}}
	case "minInclusive", "maxInclusive", "minExclusive", "maxExclusive":
		return map[string]any{kind: 5}
	case "minInclusiveFloat":
		return map[string]any{"minInclusive": 5.5}
	case "maxExclusiveFloat":
		return map[string]any{"maxExclusive": 5.5}
	case "datatype":
		return map[string]any{"datatype": "xsd.string"}
	case "lessThanProperty", "lessThanOrEqualsToProperty", "equalsToProperty", "disjointWithProperty":
		return map[string]any{kind: "ex.other / ex.p"}
	case "uniqueValues":
		return map[string]any{"uniqueValues": true}
	case "nested":
		return map[string]any{"nested": simpleExpr("ex.z")}
	case "atLeast", "atMost":
		return map[string]any{kind: map[string]any{"count": 1, "validation": simpleExpr("ex.z")}}
	}
	panic("unknown kind " + kind)
}

func quantWrap(q string, inner map[string]any) map[string]any {
	if q == "nested" {
		return map[string]any{"nested": inner}
	}
	return map[string]any{q: map[string]any{"count": 1, "validation": inner}}
}

func renderShape(c shapeCase) string {
	shapeRot = c.Siblings + c.Depth + c.Validations + len(c.Ctx) + len(c.Path)
	leaf := map[string]any{"propertyConstraints": map[string]any{shapePaths[c.Path]: leafConstraint(c.Kind)}}
	pcs := map[string]any{}
	for s := 1; s <= c.Siblings; s++ {
		inner := leaf
		for d := c.Depth; d >= 2; d-- {
			inner = map[string]any{"propertyConstraints": map[string]any{fmt.Sprintf("ex.c%d", d): quantWrap(c.Quant, inner)}}
		}
		pcs[fmt.Sprintf("ex.s%d", s)] = quantWrap(c.Quant, inner)
	}
	expr := map[string]any{"propertyConstraints": pcs}
	var body map[string]any
	switch c.Ctx {
	case "plain":
		body = expr
	case "not":
		body = map[string]any{"not": expr}
	case "or":
		body = map[string]any{"or": []any{expr, simpleExpr("ex.a")}}
	case "and":
		body = map[string]any{"and": []any{simpleExpr("ex.a"), expr}}
	case "if":
		body = map[string]any{"if": expr, "then": simpleExpr("ex.a")}
	case "then":
		body = map[string]any{"if": simpleExpr("ex.a"), "then": expr}
	case "else":
		body = map[string]any{"if": simpleExpr("ex.a"), "then": simpleExpr("ex.b"), "else": expr}
	case "notIfThenElse":
		body = map[string]any{"not": map[string]any{"if": expr, "then": simpleExpr("ex.a"), "else": simpleExpr("ex.b")}}
	default:
		panic("unknown ctx " + c.Ctx)
	}
	levels := map[string][]any{}
	vals := map[string]any{}
	for v := 1; v <= c.Validations; v++ {
		name := fmt.Sprintf("validation-%d", v)
		lvl := []string{"violation", "warning", "info"}[(v-1)%3]
		levels[lvl] = append(levels[lvl], name)
		if v == 1 {
			switch c.Listing {
			case "twoLevels":
				levels["warning"] = append(levels["warning"], name)
			case "threeLevels":
				levels["warning"] = append(levels["warning"], name)
				levels["info"] = append(levels["info"], name)
			case "twiceInLevel":
				levels[lvl] = append(levels[lvl], name)
			}
		}
		// texts of a well-formed profile may hold any character: rotate a few that are special to some stage
		val := map[string]any{"targetClass": "ex.T", "message": "shape " + name + shapeTexts[(v+c.Siblings+c.Depth+len(c.Kind))%len(shapeTexts)]}
		for k, x := range body {
			val[k] = x
		}
		vals[name] = val
	}
	doc := map[string]any{"profile": "Shape Validación de APIs 規則 ÉCOLE " + c.ID, "prefixes": map[string]any{"ex": exNS}, "validations": vals}
	for l, ns := range levels {
		doc[l] = ns
	}
	b, _ := yaml.Marshal(doc)
	var back map[string]any
	if err := yaml.Unmarshal(b, &back); err != nil {
		// yaml.v3 could not write one of the texts: fall back to plain messages (the shape is what matters here)
		for _, v := range vals {
			v.(map[string]any)["message"] = "shape"
		}
		b, _ = yaml.Marshal(doc)
	}
	return "#%Validation Profile 1.0\n" + string(b)
}

const shapeData = `[
 {"@id": "http://example.org/n/1", "@type": ["http://example.org/ns#T"],
  "http://example.org/ns#p": [{"@id": "http://example.org/n/2"}, {"@value": "abc"}],
  "http://example.org/ns#s1": [{"@id": "http://example.org/n/2"}], "http://example.org/ns#a": [{"@value": 1}]},
 {"@id": "http://example.org/n/2", "@type": ["http://example.org/ns#T"],
  "http://example.org/ns#q": [{"@id": "http://example.org/n/1"}, {"@value": 7}],
  "http://example.org/ns#c2": [{"@id": "http://example.org/n/1"}], "http://example.org/ns#p": [{"@value": 7}],
  "http://example.org/ns#other": [{"@id": "http://example.org/n/1"}]}
]`

func runShape(c shapeCase) (o shapeObs) {
	o.ID = c.ID
	prof := renderShape(c)
	defer func() {
		if r := recover(); r != nil {
			o.Ran = "panic"
			o.RunErr = fmt.Sprint(r)
			o.Profile = prof
		}
	}()
	if (c.Siblings+c.Depth+len(c.Kind)+len(c.Path))%4 == 0 {
		// an earlier draft of the same profile that forgot its prefixes (rejected), and one that only mentions the
		// properties in a message: neither may influence the compilation of the finished profile
		draft := strings.Replace(prof, "prefixes:\n    ex: "+exNS+"\n", "", 1)
		quiet(func() { pkg.CompileProfile(draft, false, nil) })
		quiet(func() {
			pkg.CompileProfile("profile: draft\nviolation: [v]\nvalidations:\n  v:\n    targetClass: doc.Unit\n    message: \"{{ex.p}} {{ex.q}} {{ex.r}} {{ex.s1}} {{ex.c2}} {{ex.z}} {{ex.a}} {{ex.b}} {{ex.has_name}} {{ex.other}}\"\n    propertyConstraints:\n      doc.encodes:\n        minCount: 1\n", false, nil)
		})
	}
	h, err := pkg.CompileProfile(prof, false, nil)
	if err != nil {
		o.Err = err.Error()
		if len(o.Err) > 600 {
			o.Err = o.Err[:600]
		}
		o.Profile = prof
		return
	}
	o.Compiled = true
	_, err = pkg.ValidateCompiledWithConfiguration(h, shapeData, false, nil, clockA, config.DefaultReportConfiguration())
	if err != nil {
		o.Ran = "error"
		o.RunErr = err.Error()
		o.Profile = prof
		return
	}
	o.Ran = "report"
	return
}

func init() {
	commands["shapes"] = func(args []string) error {
		if len(args) != 2 {
			return fmt.Errorf("usage: acvh shapes <in.ndjson> <out.ndjson>")
		}
		w, err := newNDWriter(args[1])
		if err != nil {
			return err
		}
		if err := readLines(args[0], func(b []byte) error {
			var c shapeCase
			if err := json.Unmarshal(b, &c); err != nil {
				return err
			}
			o := runShape(c)
			if len(o.Profile) > 6000 {
				o.Profile = o.Profile[:6000]
			}
			return w.write(o)
		}); err != nil {
			return err
		}
		return w.close()
	}
}
