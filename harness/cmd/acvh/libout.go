package main

import (
	"encoding/json"
	"fmt"

	"github.com/aml-org/amf-custom-validator/pkg"
	"github.com/aml-org/amf-custom-validator/pkg/verifexport"
)

// libout: what the library returns for given texts, in a fresh process --
// the reference the command line tool's output is compared with (C18).
type loCase struct {
	ID      string `json:"id"`
	Op      string `json:"op"` // validate | generate | normalize
	Profile string `json:"profile"`
	Data    string `json:"data"`
}

type loObs struct {
	ID  string `json:"id"`
	Out string `json:"out"`
	Err string `json:"err,omitempty"`
}

func init() {
	commands["libout"] = func(args []string) error {
		if len(args) != 2 {
			return fmt.Errorf("usage: acvh libout <in.ndjson> <out.ndjson>")
		}
		w, err := newNDWriter(args[1])
		if err != nil {
			return err
		}
		if err := readLines(args[0], func(b []byte) error {
			var c loCase
			if err := json.Unmarshal(b, &c); err != nil {
				return err
			}
			o := loObs{ID: c.ID}
			func() {
				defer func() {
					if r := recover(); r != nil {
						o.Err = fmt.Sprint("panic: ", r)
					}
				}()
				var err error
				switch c.Op {
				case "validate":
					o.Out, err = pkg.Validate(c.Profile, c.Data, false, nil)
				case "validateCompiled":
					h, cerr := pkg.CompileProfile(c.Profile, false, nil)
					err = cerr
					if err == nil {
						o.Out, err = pkg.ValidateCompiled(h, c.Data, false, nil)
					}
				case "generate":
					verifexport.GenReset()
					o.Out, err = verifexport.GenerateRego(c.Profile)
				case "normalize":
					var v any
					v, err = verifexport.ProcessInput(c.Data)
					if err == nil {
						o.Out = verifexport.Encode(v)
					}
				}
				if err != nil {
					o.Err = err.Error()
				}
			}()
			return w.write(o)
		}); err != nil {
			return err
		}
		return w.close()
	}
}
