package main

import (
	"encoding/json"
	"fmt"
	"sync/atomic"

	"github.com/aml-org/amf-custom-validator/pkg"
	"github.com/aml-org/amf-custom-validator/pkg/config"
	"github.com/open-policy-agent/opa/rego"
)

// history: one compiled profile (or two) driven through a sequence of data
// documents, next to fresh validations of the same texts, all under a fixed
// clock.  Output has the same shape as `proto` so that the same trace spec
// validates it; every call additionally logs the (profile, doc) key and the
// hash of the report it returned.
type histCase struct {
	ID       string            `json:"id"`
	Profile  string            `json:"profile"`
	PKey     string            `json:"pkey"`
	Docs     map[string]string `json:"docs"`
	DClasses map[string]string `json:"dclasses"`
	Fresh    []string          `json:"fresh"`
	Steps    []string          `json:"steps"`
	Handles  []int             `json:"handles"` // handle index per step (0/1)
	// script mode: several profile texts, named handles, an explicit sequence of compile / validate / validateCompiled
	VaryCfg  bool              `json:"varyCfg"`
	OnlyCfg  *string           `json:"onlyCfg"` // fresh validations under this configuration only
	Profiles map[string]string `json:"profiles"`
	Script   []histOp          `json:"script"`
}

type histOp struct {
	Op     string `json:"op"` // compile | validate | validateCompiled
	PKey   string `json:"pkey"`
	Handle string `json:"handle"`
	DKey   string `json:"dkey"`
}

type histCall struct {
	callObs
	PKey   string `json:"pkey"`
	DKey   string `json:"dkey"`
	DClass string `json:"dclass"`
	PClass string `json:"pclass,omitempty"`
}

type histObs struct {
	ID         string     `json:"id"`
	Entry      string     `json:"entry"`
	Chan       string     `json:"chan"`
	PClass     string     `json:"pclass"`
	DClass     string     `json:"dclass"`
	Skipped    string     `json:"skipped,omitempty"`
	Calls      []histCall `json:"calls"`
	Milestones []msObs    `json:"milestones"`
	Stack      string     `json:"stack,omitempty"`
}

func runHistory(c histCase) histObs {
	obs := histObs{ID: c.ID, Entry: "history", Chan: "none", PClass: "ok", DClass: "unknown", Calls: []histCall{}, Milestones: []msObs{}}
	if atomic.LoadInt32(&poisoned) != 0 {
		obs.Skipped = "process poisoned by an earlier timeout"
		return obs
	}
	repCfg := config.DefaultReportConfiguration()
	// report configurations used by the steps: the report is a function of (profile, doc, configuration)
	cfgs := map[string]config.ReportConfiguration{"": repCfg, "alt": repCfg, "altLex": repCfg, "altRep": repCfg, "noDate": repCfg}
	{
		a := repCfg
		a.ReportSchemaIri, a.LexicalSchemaIri = altReportSchema, altLexicalSchema
		cfgs["alt"] = a
		b := repCfg
		b.LexicalSchemaIri = altLexicalSchema
		cfgs["altLex"] = b
		d := repCfg
		d.ReportSchemaIri = altReportSchema
		cfgs["altRep"] = d
		e := repCfg
		e.IncludeReportCreationTime = false
		cfgs["noDate"] = e
		// configurations written as struct literals that leave schema IRIs at their zero value
		cfgs["emptyIris"] = config.ReportConfiguration{IncludeReportCreationTime: false}
		cfgs["emptyLex"] = config.ReportConfiguration{IncludeReportCreationTime: true, ReportSchemaIri: altReportSchema}
	}
	cfgNames := []string{"", "alt", "altLex", "altRep", "noDate", "emptyIris", "emptyLex"}
	stepCfg := func(i int) string {
		if !c.VaryCfg {
			return ""
		}
		return cfgNames[(i*5+len(c.ID))%len(cfgNames)]
	}
	dk := func(d, cfg string) string {
		if cfg == "" {
			return d
		}
		return d + "@" + cfg
	}
	record := func(entry, dkey string, o outcome) {
		co := callObs{Entry: entry, Kind: o.kind, Err: o.err, Panic: o.pmsg, Events: []int{}, TimesOK: true}
		if o.kind == "report" {
			co.Conforms, co.Sha = reportFacts(o.report)
		}
		if o.stack != "" {
			obs.Stack = o.stack
		}
		obs.Calls = append(obs.Calls, histCall{callObs: co, PKey: c.PKey, DKey: dkey, DClass: c.DClasses[dkey]})
	}
	if len(c.Script) > 0 {
		hs := map[string]*rego.PreparedEvalQuery{}
		hp := map[string]string{}
		for _, op := range c.Script {
			op := op
			switch op.Op {
			case "compile":
				o := guarded(func() (string, *rego.PreparedEvalQuery, error) {
					h, err := pkg.CompileProfile(c.Profiles[op.PKey], false, nil)
					if err != nil {
						return "", h, err
					}
					return "", h, nil
				})
				record("compile", "", o)
				obs.Calls[len(obs.Calls)-1].PKey = op.PKey
				if o.kind == "handle" {
					hs[op.Handle] = o.h
					hp[op.Handle] = op.PKey
				}
			case "validate":
				record("validate", op.DKey, guarded(func() (string, *rego.PreparedEvalQuery, error) {
					r, err := pkg.ValidateWithConfiguration(c.Profiles[op.PKey], c.Docs[op.DKey], false, nil, clockA, repCfg)
					return r, nil, err
				}))
				obs.Calls[len(obs.Calls)-1].PKey = op.PKey
			case "validateCompiled":
				h := hs[op.Handle]
				if h == nil {
					obs.Skipped = "script uses a handle that was not compiled: " + op.Handle
					return obs
				}
				record("validateCompiled", op.DKey, guarded(func() (string, *rego.PreparedEvalQuery, error) {
					r, err := pkg.ValidateCompiledWithConfiguration(h, c.Docs[op.DKey], false, nil, clockA, repCfg)
					return r, nil, err
				}))
				obs.Calls[len(obs.Calls)-1].PKey = hp[op.Handle]
			}
		}
		return obs
	}
	for _, d := range c.Fresh {
		text := c.Docs[d]
		for _, cn := range cfgNames {
			if cn != "" && !c.VaryCfg {
				continue
			}
			if c.OnlyCfg != nil && *c.OnlyCfg != cn {
				continue
			}
			rc := cfgs[cn]
			record("validate", dk(d, cn), guarded(func() (string, *rego.PreparedEvalQuery, error) {
				r, err := pkg.ValidateWithConfiguration(c.Profile, text, false, nil, clockA, rc)
				return r, nil, err
			}))
			obs.Calls[len(obs.Calls)-1].DClass = c.DClasses[d]
		}
	}
	nh := 1
	for _, h := range c.Handles {
		if h+1 > nh {
			nh = h + 1
		}
	}
	handles := make([]*rego.PreparedEvalQuery, nh)
	for i := range handles {
		o := guarded(func() (string, *rego.PreparedEvalQuery, error) {
			h, err := pkg.CompileProfile(c.Profile, false, nil)
			if err != nil {
				return "", h, err
			}
			return "", h, nil
		})
		record("compile", "", o)
		if o.kind == "timeout" || o.kind == "panic" {
			return obs // the recorded call is itself not a behaviour of the specification
		}
		if o.kind != "handle" {
			obs.Skipped = "compile:" + o.kind
			return obs
		}
		handles[i] = o.h
	}
	for i, d := range c.Steps {
		text := c.Docs[d]
		h := handles[0]
		if i < len(c.Handles) {
			h = handles[c.Handles[i]]
		}
		cn := stepCfg(i)
		rc := cfgs[cn]
		record("validateCompiled", dk(d, cn), guarded(func() (string, *rego.PreparedEvalQuery, error) {
			r, err := pkg.ValidateCompiledWithConfiguration(h, text, false, nil, clockA, rc)
			return r, nil, err
		}))
		obs.Calls[len(obs.Calls)-1].DClass = c.DClasses[d]
	}
	return obs
}

func init() {
	commands["history"] = func(args []string) error {
		if len(args) != 2 {
			return fmt.Errorf("usage: acvh history <cases.ndjson> <out.ndjson>")
		}
		w, err := newNDWriter(args[1])
		if err != nil {
			return err
		}
		if err := readLines(args[0], func(b []byte) error {
			var c histCase
			if err := json.Unmarshal(b, &c); err != nil {
				return err
			}
			return w.write(runHistory(c))
		}); err != nil {
			return err
		}
		return w.close()
	}
}
