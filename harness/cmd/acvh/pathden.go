package main

import (
	"encoding/json"
	"fmt"
	"sort"
	"strings"

	"github.com/aml-org/amf-custom-validator/pkg"
	"github.com/aml-org/amf-custom-validator/pkg/config"
	"gopkg.in/yaml.v3"
)

// pathden: observes the values a constraint is applied to through a property
// path, the way property C02 prescribes: one `in` result per reached value
// (traceValue.actual), the `maxCount` trace's actual = number of distinct
// values, and -- through `nested` -- the set of reached nodes.
type pdGraph struct {
	Name  string              `json:"name"`
	Nodes []string            `json:"nodes"`
	Edges [][]string          `json:"edges"`
	Types map[string][]string `json:"types"`
}

type pdPath struct {
	PID  string `json:"pid"`
	Text string `json:"text"`
}

type pdCase struct {
	ID    string   `json:"id"`
	Graph pdGraph  `json:"graph"`
	Paths []pdPath `json:"paths"`
	// Custom: the predicate of this name is a custom domain property (written apiExt.<name> in the paths): its edges are
	// rendered the way AMF encodes extensions -- a link listed under doc:customDomainProperties, the link's id used as
	// the property that points to the extension node, the extension node carrying core:extensionName
	Custom string `json:"custom,omitempty"`
	// Wide: the validation that observes the reached nodes constrains 36 more paths (constraints that always hold), so
	// that one validation carries more nested constraints than any fixture does
	Wide bool `json:"wide,omitempty"`
}

type pdNodeObs struct {
	Values []string `json:"values"`
	Count  int      `json:"count"`  // maxCount trace actual; -1 when no maxCount result
	Nested []string `json:"nested"` // focus nodes of nested sub-results
	Failed int      `json:"failed"` // failedNodes of the nested trace; -1 when no nested result
}

type pdPathObs struct {
	PID   string               `json:"pid"`
	Err   string               `json:"err,omitempty"`
	Nodes map[string]pdNodeObs `json:"nodes"`
}

type pdObs struct {
	ID       string      `json:"id"`
	Paths    []pdPathObs `json:"paths"`
	Fallback bool        `json:"fallback,omitempty"`
}

func isLit(name string) bool { return strings.HasPrefix(name, "l") }

// pdID is the IRI of a node: IRIs are compared as written, so every second one carries a non-ASCII letter, an upper-case
// scheme or an empty fragment (spellings a URL library would "canonicalise")
func pdID(n string) string {
	k := 0
	for _, c := range n {
		k += int(c)
	}
	switch k % 4 {
	case 1:
		return nodeNS + n + "-caf\u00e9"
	case 2:
		return "HTTP://example.org/n/" + n
	case 3:
		return nodeNS + n + "#"
	}
	return nodeNS + n
}

func renderPdGraph(g pdGraph, custom string) string {
	var graph []any
	extTargets := map[string]bool{}
	for _, e := range g.Edges {
		if custom != "" && e[1] == custom {
			extTargets[e[2]] = true
		}
	}
	for _, n := range g.Nodes {
		node := map[string]any{"@id": pdID(n)}
		if extTargets[n] {
			node["http://a.ml/vocabularies/core#extensionName"] = custom
		}
		var links []any
		var ts []any
		for _, t := range g.Types[n] {
			ts = append(ts, exNS+t)
		}
		node["@type"] = ts
		props := map[string][]any{}
		for _, e := range g.Edges {
			if e[0] != n {
				continue
			}
			if custom != "" && e[1] == custom {
				link := fmt.Sprintf("amf://id#link-%s-%d", n, len(links))
				links = append(links, map[string]any{"@id": link})
				node[link] = map[string]any{"@id": pdID(e[2])}
				continue
			}
			if isLit(e[2]) {
				props[e[1]] = append(props[e[1]], map[string]any{"@value": "lit-" + e[2]})
			} else {
				props[e[1]] = append(props[e[1]], map[string]any{"@id": pdID(e[2])})
			}
		}
		for p, vs := range props {
			node[exNS+p] = vs
		}
		if len(links) > 0 {
			node[docNS+"customDomainProperties"] = links
		}
		graph = append(graph, node)
	}
	b, _ := json.Marshal(graph)
	return string(b)
}

// pdPads: 36 distinct two-step paths (every pair of p, q, r and their converses), each with a nested constraint that
// every node satisfies; on the graphs of the cases most of them reach different, non-empty sets of nodes
func pdPads(except string) map[string]any {
	out := map[string]any{}
	steps := []string{"p", "q", "r", "p^", "q^", "r^"}
	for _, a := range steps {
		for _, b := range steps {
			k := "ex." + a + " / ex." + b
			if k != except {
				out[k] = map[string]any{"nested": map[string]any{
					"propertyConstraints": map[string]any{"ex.neverPresent": map[string]any{"maxCount": 0}}}}
			}
		}
	}
	return out
}

func renderPdProfile(paths []pdPath, wide bool) string {
	names := []any{}
	vals := map[string]any{}
	for _, p := range paths {
		names = append(names, p.PID+"_v", p.PID+"_n")
		vals[p.PID+"_v"] = map[string]any{"targetClass": "ex.T", "message": "values",
			"propertyConstraints": map[string]any{p.Text: map[string]any{"in": []any{"__no_such_value__"}, "maxCount": 0}}}
		vals[p.PID+"_n"] = map[string]any{"targetClass": "ex.T", "message": "nodes",
			"propertyConstraints": map[string]any{p.Text: map[string]any{"nested": map[string]any{
				"propertyConstraints": map[string]any{"ex.neverPresent": map[string]any{"minCount": 1}}}}}}
	}
	doc := map[string]any{"profile": "pathden", "prefixes": map[string]any{"ex": exNS}, "violation": names, "validations": vals}
	b, _ := yaml.Marshal(doc)
	return "#%Validation Profile 1.0\n" + string(b)
}

func valueString(v any) string {
	switch x := v.(type) {
	case string:
		return x
	default:
		b, _ := json.Marshal(x)
		return string(b)
	}
}

func strip(s string) string {
	s = strings.TrimPrefix(s, "HTTP://example.org/n/")
	s = strings.TrimPrefix(s, nodeNS)
	s = strings.TrimSuffix(strings.TrimSuffix(s, "-caf\u00e9"), "#")
	s = strings.TrimPrefix(s, exNS)
	return strings.TrimPrefix(s, "lit-")
}

func runPdBatch(paths []pdPath, g pdGraph, custom string, wide bool) ([]pdPathObs, error) {
	prof := renderPdProfile(paths, wide)
	data := renderPdGraph(g, custom)
	rep, err := pkg.ValidateWithConfiguration(prof, data, false, nil, clockA, config.DefaultReportConfiguration())
	if err != nil {
		return nil, err
	}
	var doc []map[string]any
	if err := json.Unmarshal([]byte(rep), &doc); err != nil {
		return nil, err
	}
	enc, _ := doc[0]["doc:encodes"].([]any)
	node, _ := enc[0].(map[string]any)
	res, _ := node["result"].([]any)
	by := map[string]map[string]*pdNodeObs{}
	get := func(pid, focus string) *pdNodeObs {
		if by[pid] == nil {
			by[pid] = map[string]*pdNodeObs{}
		}
		if by[pid][focus] == nil {
			by[pid][focus] = &pdNodeObs{Count: -1, Failed: -1, Values: []string{}, Nested: []string{}}
		}
		return by[pid][focus]
	}
	for _, r := range res {
		m, _ := r.(map[string]any)
		name, _ := m["sourceShapeName"].(string)
		focus := strip(valueString(m["focusNode"]))
		if len(name) < 3 {
			continue
		}
		pid, kind := name[:len(name)-2], name[len(name)-2:]
		o := get(pid, focus)
		traces, _ := m["trace"].([]any)
		for _, t := range traces {
			tm, _ := t.(map[string]any)
			comp, _ := tm["component"].(string)
			tv, _ := tm["traceValue"].(map[string]any)
			switch {
			case kind == "_v" && comp == "in":
				o.Values = append(o.Values, strip(valueString(tv["actual"])))
			case kind == "_v" && comp == "maxCount":
				if f, ok := tv["actual"].(float64); ok {
					o.Count = int(f)
				}
			case kind == "_n" && comp == "nested":
				if f, ok := tv["failedNodes"].(float64); ok {
					o.Failed = int(f)
				}
				subs, _ := tv["subResult"].([]any)
				for _, s := range subs {
					sm, _ := s.(map[string]any)
					o.Nested = append(o.Nested, strip(valueString(sm["focusNode"])))
				}
			}
		}
	}
	var out []pdPathObs
	for _, p := range paths {
		po := pdPathObs{PID: p.PID, Nodes: map[string]pdNodeObs{}}
		for f, o := range by[p.PID] {
			sort.Strings(o.Values)
			sort.Strings(o.Nested)
			po.Nodes[f] = *o
		}
		out = append(out, po)
	}
	return out, nil
}

func runPathDen(c pdCase) (obs pdObs) {
	obs.ID = c.ID
	safe := func(ps []pdPath) (r []pdPathObs, err error) {
		defer func() {
			if p := recover(); p != nil {
				err = fmt.Errorf("panic: %v", p)
			}
		}()
		return runPdBatch(ps, c.Graph, c.Custom, c.Wide)
	}
	r, err := safe(c.Paths)
	if err == nil {
		obs.Paths = r
		return
	}
	obs.Fallback = true
	for _, p := range c.Paths {
		r, err := safe([]pdPath{p})
		if err != nil {
			obs.Paths = append(obs.Paths, pdPathObs{PID: p.PID, Err: err.Error(), Nodes: map[string]pdNodeObs{}})
		} else {
			obs.Paths = append(obs.Paths, r...)
		}
	}
	return
}

func init() {
	commands["pathden"] = func(args []string) error {
		if len(args) != 2 {
			return fmt.Errorf("usage: acvh pathden <in.ndjson> <out.ndjson>")
		}
		w, err := newNDWriter(args[1])
		if err != nil {
			return err
		}
		if err := readLines(args[0], func(b []byte) error {
			var c pdCase
			if err := json.Unmarshal(b, &c); err != nil {
				return err
			}
			return w.write(runPathDen(c))
		}); err != nil {
			return err
		}
		return w.close()
	}
}
