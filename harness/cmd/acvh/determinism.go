package main

import (
	"crypto/sha256"
	"encoding/hex"
	"encoding/json"
	"fmt"
	"sync"

	"github.com/aml-org/amf-custom-validator/pkg"
	"github.com/aml-org/amf-custom-validator/pkg/config"
	"github.com/aml-org/amf-custom-validator/pkg/verifexport"
)

// determinism: observes output hashes for the same input: generated code
// under fresh-process conditions (GenReset) repeated in-process, reports of
// repeated and concurrent validations under a fixed clock.  With reps = 1 it
// is also what a fresh process contributes.
type detCase struct {
	ID         string `json:"id"`
	Profile    string `json:"profile"`
	Data       string `json:"data"`
	Reps       int    `json:"reps"`
	Goroutines int    `json:"goroutines"`
	Tag        string `json:"tag"` // e.g. "proc3": stored with the observations
}

type detRow struct {
	Key string `json:"key"` // <case id>|code or <case id>|report
	Sha string `json:"sha"`
	Src string `json:"src"` // inproc-seq | inproc-conc | <tag>
}

type detObs struct {
	ID   string   `json:"id"`
	Err  string   `json:"err,omitempty"`
	Rows []detRow `json:"rows"`
}

func shaOf(s string) string {
	h := sha256.Sum256([]byte(s))
	return hex.EncodeToString(h[:10])
}

func runDeterminism(c detCase) (o detObs) {
	o.ID = c.ID
	o.Rows = []detRow{}
	defer func() {
		if r := recover(); r != nil {
			o.Err = fmt.Sprint("panic: ", r)
		}
	}()
	src := c.Tag
	if src == "" {
		src = "inproc-seq"
	}
	cfg := config.DefaultReportConfiguration()
	altCfg := cfg
	altCfg.ReportSchemaIri, altCfg.LexicalSchemaIri = altReportSchema, altLexicalSchema
	if rep, err := pkg.ValidateWithConfiguration(c.Profile, c.Data, false, nil, clockA, altCfg); err == nil {
		o.Rows = append(o.Rows, detRow{c.ID + "|report-alt", shaOf(rep), src})
	}
	for i := 0; i < c.Reps; i++ {
		verifexport.GenReset()
		code, err := verifexport.GenerateRego(c.Profile)
		if err != nil {
			o.Err = "generate: " + err.Error()
			return
		}
		o.Rows = append(o.Rows, detRow{c.ID + "|code", shaOf(code), src})
		rep, err := pkg.ValidateWithConfiguration(c.Profile, c.Data, false, nil, clockA, cfg)
		if err != nil {
			o.Err = "validate: " + err.Error()
			return
		}
		o.Rows = append(o.Rows, detRow{c.ID + "|report", shaOf(rep), src})
	}
	if c.Goroutines > 1 {
		var mu sync.Mutex
		var wg sync.WaitGroup
		for g := 0; g < c.Goroutines; g++ {
			wg.Add(1)
			go func(g int) {
				defer wg.Done()
				defer func() { recover() }()
				rc, key := cfg, c.ID+"|report"
				if g%2 == 1 { // every second goroutine uses other schema IRIs: its reports form their own key
					rc.ReportSchemaIri, rc.LexicalSchemaIri = altReportSchema, altLexicalSchema
					key = c.ID + "|report-alt"
				}
				rounds := 3
				if len(c.Data) < 50000 {
					rounds = 12 // small inputs: more overlapping calls under the two configurations
				}
				for k := 0; k < rounds; k++ {
					rep, err := pkg.ValidateWithConfiguration(c.Profile, c.Data, false, nil, clockA, rc)
					if err != nil {
						return
					}
					mu.Lock()
					o.Rows = append(o.Rows, detRow{key, shaOf(rep), "inproc-conc"})
					mu.Unlock()
				}
			}(g)
		}
		wg.Wait()
	}
	return
}

func init() {
	commands["determinism"] = func(args []string) error {
		if len(args) != 2 {
			return fmt.Errorf("usage: acvh determinism <in.ndjson> <out.ndjson>")
		}
		w, err := newNDWriter(args[1])
		if err != nil {
			return err
		}
		if err := readLines(args[0], func(b []byte) error {
			var c detCase
			if err := json.Unmarshal(b, &c); err != nil {
				return err
			}
			return w.write(runDeterminism(c))
		}); err != nil {
			return err
		}
		return w.close()
	}
}
