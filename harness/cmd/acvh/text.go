package main

import (
	"encoding/json"
	"fmt"
	"os"
	"os/exec"
	"path/filepath"
	"sort"
	"strings"

	"github.com/aml-org/amf-custom-validator/pkg"
	"github.com/aml-org/amf-custom-validator/pkg/config"
	"gopkg.in/yaml.v3"
)

// text: places a string as profile name / validation name / message / list
// value of a profile (YAML-encoded by yaml.v3), compiles and runs it on a
// small graph and projects what the report shows.
type txCase struct {
	ID      string          `json:"id"`
	Kind    string          `json:"kind"` // message | profileName | validationName | in | containsAll | containsSome
	Text    string          `json:"text"`
	Present map[string]bool `json:"present"`       // which placeholder properties the focus node has
	Pad     int             `json:"pad,omitempty"` // list constraints: this many other values next to the tested one
	CLI     string          `json:"cli,omitempty"` // path of the acv binary: the same texts also go through `acv validate`
	Scratch string          `json:"scratch,omitempty"`
}

type txObs struct {
	ID          string   `json:"id"`
	Compiled    bool     `json:"compiled"`
	Err         string   `json:"err,omitempty"`
	ProfileName string   `json:"profileName"`
	Names       []string `json:"names"`    // sourceShapeName of the results
	Messages    []string `json:"messages"` // resultMessage of the results about node n1
	Reported    []string `json:"reported"` // focus nodes reported
	Profile     string   `json:"profile,omitempty"`
	// the same three projections of the report `acv validate PROFILE DATA` prints
	CLIRan         bool     `json:"cliRan,omitempty"`
	CLIErr         string   `json:"cliErr,omitempty"`
	CLIProfileName string   `json:"cliProfileName,omitempty"`
	CLINames       []string `json:"cliNames,omitempty"`
	CLIMessages    []string `json:"cliMessages,omitempty"`
}

// projectTextReport extracts profileName, the sourceShapeNames and the messages about node n1 from a report text
func projectTextReport(rep string) (pname string, names, messages, reported []string, err error) {
	var rdoc []map[string]any
	if e := json.Unmarshal([]byte(rep), &rdoc); e != nil || len(rdoc) == 0 {
		return "", nil, nil, nil, fmt.Errorf("report is not JSON: %v", e)
	}
	enc, _ := rdoc[0]["doc:encodes"].([]any)
	if len(enc) == 0 {
		return "", nil, nil, nil, fmt.Errorf("report encodes nothing")
	}
	node, _ := enc[0].(map[string]any)
	pname, _ = node["profileName"].(string)
	res, _ := node["result"].([]any)
	names, messages, reported = []string{}, []string{}, []string{}
	for _, r := range res {
		rm, _ := r.(map[string]any)
		focus := stripNS(scalarString(rm["focusNode"]))
		reported = append(reported, focus)
		names = append(names, scalarString(rm["sourceShapeName"]))
		if focus == "n1" {
			messages = append(messages, scalarString(rm["resultMessage"]))
		}
	}
	sort.Strings(reported)
	return
}

func runText(c txCase) (o txObs) {
	o.ID = c.ID
	o.Names, o.Messages, o.Reported = []string{}, []string{}, []string{}
	name, vname, msg := "text profile", "v1", "plain message"
	constraint := map[string]any{"minCount": 1}
	prop := "ex.required"
	n1 := map[string]any{"@id": nodeNS + "n1", "@type": []any{exNS + "T"}}
	n2 := map[string]any{"@id": nodeNS + "n2", "@type": []any{exNS + "T"}, exNS + "required": []any{map[string]any{"@value": "here"}}}
	if c.Present["P1"] {
		n1[exNS+"p1"] = "VAL1"
	}
	if c.Present["P2"] { // the second placeholder is written with a built-in prefix: {{ core.name }}
		n1["http://a.ml/vocabularies/core#name"] = "VAL2"
	}
	const token = "ZZTEXTTOKENZZ"
	switch c.Kind {
	case "message":
		msg = token
	case "profileName":
		name = token
	case "validationName":
		vname = token
	case "in", "containsAll", "containsSome":
		prop = "ex.val"
		vals := []any{token}
		for i := 0; i < c.Pad; i++ { // a long enumeration: the tested value is one of many
			vals = append(vals, fmt.Sprintf("filler value %d", i))
		}
		if c.Kind == "containsAll" {
			vals = vals[:1] // the node holds the tested value only
		}
		constraint = map[string]any{c.Kind: vals}
		n1[exNS+"val"] = []any{map[string]any{"@value": c.Text}}
		n2[exNS+"val"] = []any{map[string]any{"@value": c.Text + "x"}}
	default:
		o.Err = "unknown kind"
		return
	}
	doc := map[string]any{"profile": name, "prefixes": map[string]any{"ex": exNS}, "violation": []any{vname},
		"validations": map[string]any{vname: map[string]any{"targetClass": "ex.T", "message": msg,
			"propertyConstraints": map[string]any{prop: constraint}}}}
	pb, err := yaml.Marshal(doc)
	if err != nil {
		o.Err = "yaml: " + err.Error()
		return
	}
	// the string under test is written as a JSON-style double-quoted YAML scalar, and the result is checked to
	// denote exactly that string (yaml.v3's own emitter does not round-trip every string with line breaks)
	jb, _ := json.Marshal(c.Text)
	quoted := strings.ReplaceAll(string(jb), "\\u003c", "<")
	quoted = strings.ReplaceAll(strings.ReplaceAll(quoted, "\\u003e", ">"), "\\u0026", "&")
	prof := "#%Validation Profile 1.0\n" + strings.ReplaceAll(string(pb), token, quoted)
	var back map[string]any
	if err := yaml.Unmarshal([]byte(prof), &back); err != nil || !strings.Contains(fmt.Sprint(back), c.Text) {
		o.Err = "SKIP: the harness could not write this string as YAML"
		return
	}
	data, _ := json.Marshal([]any{n1, n2})
	defer func() {
		if r := recover(); r != nil {
			o.Err = fmt.Sprint("panic: ", r)
			o.Profile = prof
		}
	}()
	h, err := pkg.CompileProfile(prof, false, nil)
	if err != nil {
		o.Err = err.Error()
		if len(o.Err) > 400 {
			o.Err = o.Err[:400]
		}
		o.Profile = prof
		return
	}
	o.Compiled = true
	rep, err := pkg.ValidateCompiledWithConfiguration(h, string(data), false, nil, clockA, config.DefaultReportConfiguration())
	if err != nil {
		o.Err = "validate: " + err.Error()
		o.Profile = prof
		return
	}
	var perr error
	o.ProfileName, o.Names, o.Messages, o.Reported, perr = projectTextReport(rep)
	if perr != nil {
		o.Err = perr.Error()
		return
	}
	if c.CLI != "" {
		o.CLIRan = true
		pf := filepath.Join(c.Scratch, strings.ReplaceAll(c.ID, "/", "_")+".yaml")
		df := filepath.Join(c.Scratch, strings.ReplaceAll(c.ID, "/", "_")+".jsonld")
		os.WriteFile(pf, []byte(prof), 0644)
		os.WriteFile(df, data, 0644)
		out, xerr := exec.Command(c.CLI, "validate", pf, df).Output()
		os.Remove(pf)
		os.Remove(df)
		if xerr != nil {
			o.CLIErr = "acv validate: " + xerr.Error()
			return
		}
		var cerr error
		o.CLIProfileName, o.CLINames, o.CLIMessages, _, cerr = projectTextReport(string(out))
		if cerr != nil {
			o.CLIErr = cerr.Error()
		}
	}
	return
}

func init() {
	commands["text"] = func(args []string) error {
		if len(args) != 2 {
			return fmt.Errorf("usage: acvh text <in.ndjson> <out.ndjson>")
		}
		w, err := newNDWriter(args[1])
		if err != nil {
			return err
		}
		if err := readLines(args[0], func(b []byte) error {
			var c txCase
			if err := json.Unmarshal(b, &c); err != nil {
				return err
			}
			return w.write(runText(c))
		}); err != nil {
			return err
		}
		return w.close()
	}
}
