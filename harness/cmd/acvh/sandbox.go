package main

import (
	"context"
	"encoding/json"
	"fmt"
	"net"
	"net/http"
	"sort"
	"strings"
	"sync/atomic"
	"time"

	"github.com/aml-org/amf-custom-validator/pkg"
	"github.com/open-policy-agent/opa/ast"
	"github.com/open-policy-agent/opa/rego"
	"gopkg.in/yaml.v3"
)

// sandbox: places a call to a built-in at an embedding position of the
// profile language, written in a given syntax (spec/Sandbox.tla), compiles
// and validates the profile, and records any outbound network attempt made
// by the process (local listener for http.send, resolver dial hook for
// net.lookup_ip_addr, recording default transport).
type sbCase struct {
	ID    string `json:"id"`
	B     string `json:"b"`
	Pos   string `json:"pos"`
	Syn   string `json:"syn"`
	Debug bool   `json:"debug"`
}

type sbObs struct {
	ID           string `json:"id"`
	CompileErr   bool   `json:"compileErr"`
	CompileMsg   string `json:"compileMsg,omitempty"`
	ValidateErr  bool   `json:"validateErr"`
	ValidateMsg  string `json:"validateMsg,omitempty"`
	UnsafeReason bool   `json:"unsafeReason"` // the error names the built-in as unsafe
	NetAttempts  int64  `json:"netAttempts"`
	Panic        string `json:"panic,omitempty"`
	Profile      string `json:"profile,omitempty"`
}

var netAttempts int64
var probeURL string

type recordingTransport struct{}

func (recordingTransport) RoundTrip(r *http.Request) (*http.Response, error) {
	atomic.AddInt64(&netAttempts, 1)
	return nil, fmt.Errorf("network access recorded and refused by the harness")
}

func installMonitors() {
	ln, err := net.Listen("tcp", "127.0.0.1:0")
	if err != nil {
		panic(err)
	}
	probeURL = "http://" + ln.Addr().String() + "/"
	go func() {
		for {
			c, err := ln.Accept()
			if err != nil {
				return
			}
			atomic.AddInt64(&netAttempts, 1)
			c.Close()
		}
	}()
	// keep the concrete type the engine expects (*http.Transport) and record at the dial level
	http.DefaultTransport = &http.Transport{DialContext: func(ctx context.Context, network, addr string) (net.Conn, error) {
		atomic.AddInt64(&netAttempts, 1)
		return nil, fmt.Errorf("dial recorded and refused by the harness")
	}}
	http.DefaultClient = &http.Client{Transport: recordingTransport{}}
	net.DefaultResolver = &net.Resolver{PreferGo: true, Dial: func(ctx context.Context, network, address string) (net.Conn, error) {
		atomic.AddInt64(&netAttempts, 1)
		return nil, fmt.Errorf("resolver dial recorded and refused by the harness")
	}}
}

func sbExpr(b string) string {
	switch b {
	case "http.send":
		return fmt.Sprintf(`http.send({"method": "get", "url": "%s", "timeout": "300ms", "raise_error": false})`, probeURL)
	case "net.lookup_ip_addr":
		return `net.lookup_ip_addr("acv-probe.invalid")`
	case "opa.runtime":
		return `opa.runtime()`
	case "rego.parse_module":
		return `rego.parse_module("x.rego", "package x")`
	case "walk":
		return `[wp | walk(input, [wp, _])]`
	case "count":
		return `count([1, 2])`
	case "concat":
		return `concat("", ["a", "b"])`
	}
	panic("unknown builtin " + b)
}

func mockArg(b string) string {
	if b == "http.send" {
		return fmt.Sprintf(`{"method": "get", "url": "%s", "timeout": "300ms", "raise_error": false}`, probeURL)
	}
	return `"acv-probe.invalid"`
}

func sbStmt(b string) string {
	if b == "walk" {
		return `walk(input, [[], input])`
	}
	return sbExpr(b)
}

// sbLines returns the Rego statements of the probe (without the line that sets the result).
func sbLines(b, syn string) []string {
	switch syn {
	case "statement":
		return []string{sbStmt(b)}
	case "assignment", "ruleHeadValue":
		return []string{"probe := " + sbExpr(b)}
	case "unification":
		return []string{"probe = " + sbExpr(b)}
	case "arrayComprehension":
		return []string{"probe := [pv | pv := " + sbExpr(b) + "]"}
	case "setComprehension":
		return []string{"probe := {pv | pv := " + sbExpr(b) + "}"}
	case "objectComprehension":
		return []string{`probe := {"k": pv | pv := ` + sbExpr(b) + "}"}
	case "every":
		return []string{"every pz in [1] { pz > 0; " + sbStmt(b) + " }"}
	case "argument":
		return []string{"probe := json.marshal(" + sbExpr(b) + ")"}
	case "negated":
		return []string{"not " + sbStmt(b)}
	case "withMock":
		// the dangerous built-in is only named as the replacement of a harmless one
		switch b {
		case "http.send", "net.lookup_ip_addr":
			return []string{fmt.Sprintf("probe := count(%s) with count as %s", mockArg(b), b)}
		case "opa.runtime":
			return []string{"probe := time.now_ns() with time.now_ns as opa.runtime"}
		case "rego.parse_module":
			return []string{`probe := startswith("x.rego", "package x") with startswith as rego.parse_module`}
		case "count":
			return []string{"probe := sum([1, 2]) with sum as count"}
		case "concat":
			return []string{`probe := trim("", ["a", "b"]) with trim as concat`}
		}
	}
	panic("unknown syntax " + syn)
}

func renderSandbox(c sbCase) string {
	code := strings.Join(append(sbLines(c.B, c.Syn), "$result = true"), "\n")
	simple := map[string]any{"propertyConstraints": map[string]any{"ex.p": map[string]any{"minCount": 1}}}
	val := map[string]any{"targetClass": "ex.T", "message": "probe"}
	doc := map[string]any{"profile": "sandbox", "prefixes": map[string]any{"ex": exNS}, "violation": []any{"v"}}
	codeForm := map[string]any{"message": "probe message", "code": code}
	set := func(m map[string]any) {
		for k, v := range m {
			val[k] = v
		}
	}
	helperBody := strings.Join(sbLines(c.B, c.Syn), "\n  ")
	helper := "probe_helper(x) = y {\n  " + helperBody + "\n  y := true\n}\n"
	if c.Syn == "ruleHeadValue" {
		helper = "probe_helper(x) = " + sbExpr(c.B) + "\n"
	}
	switch c.Pos {
	case "validation.rego":
		set(map[string]any{"rego": code})
	case "validation.regoModule":
		set(map[string]any{"regoModule": code})
	case "validation.rego.code":
		set(map[string]any{"rego": codeForm})
	case "constraint.rego":
		set(map[string]any{"propertyConstraints": map[string]any{"ex.p": map[string]any{"rego": code}}})
	case "constraint.regoModule":
		set(map[string]any{"propertyConstraints": map[string]any{"ex.p": map[string]any{"regoModule": code}}})
	case "constraint.rego.code":
		set(map[string]any{"propertyConstraints": map[string]any{"ex.p": map[string]any{"rego": codeForm}}})
	case "under.not":
		set(map[string]any{"not": map[string]any{"rego": code}})
	case "and.operand":
		set(map[string]any{"and": []any{simple, map[string]any{"rego": code}}})
	case "or.operand":
		set(map[string]any{"or": []any{map[string]any{"rego": code}, simple}})
	case "and.secondRego", "or.secondRego", "not.or.secondRego":
		// two embedded-Rego operands that differ in nothing but their code (same path, default message)
		ops := []any{map[string]any{"rego": "$result = true"}, map[string]any{"rego": code}}
		switch c.Pos {
		case "and.secondRego":
			set(map[string]any{"and": ops})
		case "or.secondRego":
			set(map[string]any{"or": ops})
		default:
			set(map[string]any{"not": map[string]any{"or": ops}})
		}
	case "constraint.regoAndModule":
		set(map[string]any{"propertyConstraints": map[string]any{"ex.p": map[string]any{"rego": "$result = true", "regoModule": code}}})
	case "under.nested":
		set(map[string]any{"propertyConstraints": map[string]any{"ex.child": map[string]any{"nested": map[string]any{"rego": code}}}})
	case "atLeast.validation", "atMost.validation":
		q := strings.Split(c.Pos, ".")[0]
		set(map[string]any{"propertyConstraints": map[string]any{"ex.child": map[string]any{q: map[string]any{"count": 1, "validation": map[string]any{"rego": code}}}}})
	case "if":
		set(map[string]any{"if": map[string]any{"rego": code}, "then": simple})
	case "then":
		set(map[string]any{"if": simple, "then": map[string]any{"rego": code}})
	case "else":
		set(map[string]any{"if": simple, "then": simple, "else": map[string]any{"rego": code}})
	case "extensions.called":
		doc["rego_extensions"] = helper
		set(map[string]any{"rego": "$result = (probe_helper(1) != null)"})
	case "extensions.uncalled":
		doc["rego_extensions"] = helper
		set(simple)
	case "extensions.rule":
		if c.Syn == "ruleHeadValue" {
			doc["rego_extensions"] = "probe_rule = " + sbExpr(c.B) + "\n"
		} else {
			doc["rego_extensions"] = "probe_rule {\n  " + helperBody + "\n}\n"
		}
		set(map[string]any{"rego": "$result = (probe_rule != null)"})
	default:
		panic("unknown position " + c.Pos)
	}
	doc["validations"] = map[string]any{"v": val}
	b, _ := yaml.Marshal(doc)
	return "#%Validation Profile 1.0\n" + string(b)
}

const sandboxData = `[{"@id": "http://example.org/n/1", "@type": ["http://example.org/ns#T"],
 "http://example.org/ns#p": [{"@value": "x"}], "http://example.org/ns#child": [{"@id": "http://example.org/n/2"}]},
 {"@id": "http://example.org/n/2", "@type": ["http://example.org/ns#C"]}]`

func runSandbox(c sbCase) (o sbObs) {
	o.ID = c.ID
	prof := renderSandbox(c)
	before := atomic.LoadInt64(&netAttempts)
	defer func() {
		if r := recover(); r != nil {
			// a panic while running an accepted policy (e.g. inside the engine's http.send) still means it ran
			o.Panic = fmt.Sprint(r)
		}
		time.Sleep(5 * time.Millisecond) // let the listener goroutine count an accepted connection
		o.NetAttempts = atomic.LoadInt64(&netAttempts) - before
		if !o.CompileErr || !o.ValidateErr || o.NetAttempts > 0 || !o.UnsafeReason {
			o.Profile = prof
		}
	}()
	debug := len(c.ID)%2 == 1 || c.Debug
	// every submission of the same text must be judged: again with the same flag right after a rejection (a caller
	// retrying), and with the other flag; the profile counts as rejected only if every attempt is rejected
	var err error
	for _, d := range []bool{debug, debug, !debug, !debug} {
		var h *rego.PreparedEvalQuery
		h, err = pkg.CompileProfile(prof, d, nil)
		if err == nil {
			if h != nil {
				// an accepted policy is also run: that is what a caller holding the handle would do
				pkg.ValidateCompiled(h, sandboxData, d, nil)
			}
			break
		}
	}
	if err != nil {
		o.CompileErr = true
		o.CompileMsg = err.Error()
		// the engine's capability gate; with the `with` syntax the gate may name the harmless target instead of c.B
		o.UnsafeReason = (strings.Contains(o.CompileMsg, "unsafe built-in function calls") && strings.Contains(o.CompileMsg, c.B)) ||
			strings.Contains(o.CompileMsg, "target must not be unsafe")
		if len(o.CompileMsg) > 500 {
			o.CompileMsg = o.CompileMsg[:500]
		}
	}
	_, err = pkg.Validate(prof, sandboxData, !debug, nil)
	if err == nil {
		_, err = pkg.Validate(prof, sandboxData, debug, nil)
	} else if _, err2 := pkg.Validate(prof, sandboxData, debug, nil); err2 == nil {
		err = nil // rejected once, accepted when submitted again
	}
	if err != nil {
		o.ValidateErr = true
		o.ValidateMsg = err.Error()
		if len(o.ValidateMsg) > 300 {
			o.ValidateMsg = o.ValidateMsg[:300]
		}
	}
	return
}

func init() {
	commands["sandbox"] = func(args []string) error {
		if len(args) != 2 {
			return fmt.Errorf("usage: acvh sandbox <in.ndjson> <out.ndjson>")
		}
		installMonitors()
		w, err := newNDWriter(args[1])
		if err != nil {
			return err
		}
		if err := readLines(args[0], func(b []byte) error {
			var c sbCase
			if err := json.Unmarshal(b, &c); err != nil {
				return err
			}
			return w.write(runSandbox(c))
		}); err != nil {
			return err
		}
		return w.close()
	}
	// builtins: the built-ins registered in the linked engine
	commands["builtins"] = func(args []string) error {
		var names []string
		for _, b := range ast.Builtins {
			names = append(names, b.Name)
		}
		sort.Strings(names)
		out := map[string]any{"builtins": names, "count": len(names)}
		b, _ := json.Marshal(out)
		fmt.Println(string(b))
		return nil
	}
}
