package main

import (
	"bytes"
	"encoding/json"
	"fmt"
	"os"
	"sort"
	"strings"

	"github.com/aml-org/amf-custom-validator/pkg"
	"github.com/aml-org/amf-custom-validator/pkg/config"
	"github.com/aml-org/amf-custom-validator/pkg/verifexport"
)

// reser: writes an abstract graph as JSON-LD text under a surface-choice
// record (the Go counterpart of JsonLd!Serialise), then (i) projects what
// ProcessInput derives from the text to the abstract @ids/@types index and
// (ii) validates it with a fixed profile and projects the result set.
type rsGraph struct {
	Name      string              `json:"name"`
	Nodes     []string            `json:"nodes"`
	Lits      []string            `json:"lits"`
	Edges     [][]string          `json:"edges"`
	Types     map[string][]string `json:"types"`
	Parent    map[string]string   `json:"parent"`
	EmbedPred map[string]string   `json:"embedPred"`
}

type rsChoice struct {
	Ctx      string `json:"ctx"`
	Kw       string `json:"kw"` // plain | alias | escaped
	Base     bool   `json:"base"`
	Embed    bool   `json:"embed"`
	Wrapper  string `json:"wrapper"`
	Order    bool   `json:"order"`
	KeyOrder bool   `json:"keyOrder"`
	Arrays   bool   `json:"arrays"`
	TypeArr  bool   `json:"typeArr"`
	Repeat   bool   `json:"repeat"`
	LitObj   bool   `json:"litObj"`
	Split    bool   `json:"split"`
}

type rsCase struct {
	ID     string   `json:"id"`
	Graph  rsGraph  `json:"graph"`
	Choice rsChoice `json:"choice"`
	// Before: another case validated immediately before this one in the same process (its result is discarded)
	Before *rsCase `json:"before,omitempty"`
	WS     int     `json:"ws"`
	// KeepText: return the rendered document and the profile, for a second observation through the command line tool
	KeepText bool `json:"keepText,omitempty"`
}

type rsObs struct {
	ID       string                         `json:"id"`
	Err      string                         `json:"err,omitempty"`
	Ids      map[string]map[string][]string `json:"ids"`
	Types    map[string][]string            `json:"types"`
	Conforms bool                           `json:"conforms"`
	Results  []string                       `json:"results"` // severity|name|focus|message, sorted
	Text     string                         `json:"text,omitempty"`
	Profile  string                         `json:"profile,omitempty"`
}

// ordered JSON object
type kv struct {
	k string
	v any
}
type ordObj []kv

func (o ordObj) MarshalJSON() ([]byte, error) {
	var b bytes.Buffer
	b.WriteByte('{')
	for i, e := range o {
		if i > 0 {
			b.WriteByte(',')
		}
		kb, _ := json.Marshal(e.k)
		b.Write(kb)
		b.WriteByte(':')
		vb, err := json.Marshal(e.v)
		if err != nil {
			return nil, err
		}
		b.Write(vb)
	}
	b.WriteByte('}')
	return b.Bytes(), nil
}

func (c rsCase) idForm(n string) string {
	if c.Choice.Base {
		return n
	}
	return nodeNS + n
}

// refPrefix is the prefix name the referenced context document uses for this case: the document is rewritten
// for every case (same location, other term), so a stale copy of it cannot be used
func (c rsCase) refPrefix() string {
	return fmt.Sprintf("px%d", len(c.ID)*7+int(c.ID[len(c.ID)-1])%5)
}

var ctxFile string

func (c rsCase) keyForm(p string) string {
	switch c.Choice.Ctx {
	case "prefixRef":
		return c.refPrefix() + ":" + p
	case "prefix":
		return "ex:" + p
	case "vocab":
		return p
	}
	return exNS + p
}

func (c rsCase) isLit(x string) bool {
	for _, l := range c.Graph.Lits {
		if l == x {
			return true
		}
	}
	return false
}

func (c rsCase) obj(n string, part int) ordObj {
	g := c.Graph
	propSet := map[string]bool{}
	for _, e := range g.Edges {
		if e[0] == n {
			propSet[e[1]] = true
		}
	}
	var ps []string
	for p := range propSet {
		ps = append(ps, p)
	}
	sort.Strings(ps)
	if c.Choice.KeyOrder {
		for i, j := 0, len(ps)-1; i < j; i, j = i+1, j-1 {
			ps[i], ps[j] = ps[j], ps[i]
		}
	}
	half := (len(ps) + 1) / 2
	switch part {
	case 1:
		ps = ps[:half]
	case 2:
		ps = ps[half:]
	}
	var o ordObj
	idkv := kv{c.kwKey("@id"), c.idForm(n)}
	var typekv *kv
	if part != 2 {
		ts := append([]string{}, g.Types[n]...)
		sort.Strings(ts)
		var tv any
		if len(ts) == 1 && !c.Choice.TypeArr {
			tv = c.keyForm(ts[0])
		} else {
			arr := []any{}
			for _, t := range ts {
				arr = append(arr, c.keyForm(t))
			}
			tv = arr
		}
		typekv = &kv{c.kwKey("@type"), tv}
	}
	var props []kv
	for _, p := range ps {
		var os []string
		for _, e := range g.Edges {
			if e[0] == n && e[1] == p {
				os = append(os, e[2])
			}
		}
		sort.Strings(os)
		var vs []any
		for _, x := range os {
			switch {
			case c.isLit(x):
				if c.Choice.LitObj {
					vs = append(vs, ordObj{{"@value", "lit-" + x}})
				} else {
					vs = append(vs, "lit-"+x)
				}
			case c.Choice.Embed && g.Parent[x] == n && g.EmbedPred[x] == p:
				vs = append(vs, c.obj(x, 0))
			default:
				vs = append(vs, ordObj{{c.kwKey("@id"), c.idForm(x)}})
			}
		}
		if c.Choice.KeyOrder { // the values of a key are a set: their order is spelling too
			for i, j := 0, len(vs)-1; i < j; i, j = i+1, j-1 {
				vs[i], vs[j] = vs[j], vs[i]
			}
		}
		if c.Choice.Repeat {
			vs = append(vs, vs[0])
		}
		if len(vs) == 1 && !c.Choice.Arrays {
			props = append(props, kv{c.keyForm(p), vs[0]})
		} else {
			props = append(props, kv{c.keyForm(p), vs})
		}
	}
	// key order is a surface choice too: @id/@type first or last
	if c.Choice.KeyOrder {
		o = append(o, props...)
		if typekv != nil {
			o = append(o, *typekv)
		}
		o = append(o, idkv)
	} else {
		o = append(o, idkv)
		if typekv != nil {
			o = append(o, *typekv)
		}
		o = append(o, props...)
	}
	return o
}

// aliased: the keywords @type and @id are written through terms of the context
func (c rsCase) aliased() bool {
	return c.Choice.Kw == "alias" && c.Choice.Ctx != "none" && c.Choice.Ctx != ""
}

func (c rsCase) kwKey(k string) string {
	if c.aliased() {
		return strings.TrimPrefix(k, "@")
	}
	return k
}

func (c rsCase) context() ordObj {
	var ctx ordObj
	switch c.Choice.Ctx {
	case "prefix":
		ctx = append(ctx, kv{"ex", exNS})
	case "vocab":
		ctx = append(ctx, kv{"@vocab", exNS})
	}
	if c.aliased() {
		ctx = append(ctx, kv{"type", "@type"}, kv{"id", "@id"})
	}
	if c.Choice.Base {
		ctx = append(ctx, kv{"@base", nodeNS})
	}
	return ctx
}

func (c rsCase) render() string {
	g := c.Graph
	var tops []string
	for _, n := range g.Nodes {
		if !(c.Choice.Embed && g.Parent[n] != "none" && g.Parent[n] != "") {
			tops = append(tops, n)
		}
	}
	sort.Strings(tops)
	if c.Choice.Order {
		for i, j := 0, len(tops)-1; i < j; i, j = i+1, j-1 {
			tops[i], tops[j] = tops[j], tops[i]
		}
	}
	var objs []ordObj
	if c.Choice.Split {
		for _, n := range tops {
			objs = append(objs, c.obj(n, 1))
		}
		for _, n := range tops {
			objs = append(objs, c.obj(n, 2))
		}
	} else {
		for _, n := range tops {
			objs = append(objs, c.obj(n, 0))
		}
	}
	ctx := c.context()
	var ctxValue any = ctx
	if c.Choice.Ctx == "prefixRef" {
		if ctxFile == "" {
			f, err := os.CreateTemp("", "acvh-context-*.jsonld")
			if err != nil {
				panic(err)
			}
			ctxFile = f.Name()
			f.Close()
		}
		inner := ordObj{{c.refPrefix(), exNS}}
		if c.aliased() {
			inner = append(inner, kv{"type", "@type"}, kv{"id", "@id"})
		}
		if c.Choice.Base {
			inner = append(inner, kv{"@base", nodeNS})
		}
		b, _ := json.Marshal(ordObj{{"@context", inner}})
		if err := os.WriteFile(ctxFile, b, 0644); err != nil {
			panic(err)
		}
		ctxValue = ctxFile // json-gold opens non-http references as plain paths
		ctx = ordObj{{"ref", true}}
	}
	var doc any
	if c.Choice.Wrapper == "graph" {
		d := ordObj{}
		if len(ctx) > 0 {
			d = append(d, kv{"@context", ctxValue})
		}
		d = append(d, kv{"@graph", objs})
		doc = d
	} else {
		if len(ctx) > 0 {
			for i := range objs {
				objs[i] = append(ordObj{{"@context", ctxValue}}, objs[i]...)
			}
		}
		doc = objs
	}
	var b []byte
	switch c.WS % 3 {
	case 0:
		b, _ = json.Marshal(doc)
	case 1:
		b, _ = json.MarshalIndent(doc, "", "  ")
	default:
		b, _ = json.MarshalIndent(doc, " \t", "\t")
		b = append([]byte("\n\n  "), append(b, []byte("\n \n")...)...)
	}
	if c.Choice.Kw == "escaped" {
		// the same keys with the @ written as a JSON escape
		return strings.ReplaceAll(string(b), "\"@", "\"\\u0040")
	}
	return string(b)
}

const reserProfile = `#%Validation Profile 1.0
profile: reser
prefixes:
  ex: http://example.org/ns#
violation:
  - count-p
  - values-q
  - nested-p
  - inverse-p
  - types
warning:
  - pattern-r
  - data-required
  - security-class
  - no-blank
  - unique-reached
validations:
  unique-reached:
    targetClass: ex.T
    message: values reached must be unique
    propertyConstraints:
      ex.p / ex.r:
        uniqueValues: true
      ex.q / ex.r:
        uniqueValues: true
      ex.q / (ex.r | ex.p):
        uniqueValues: true
      ex.q / ex.p | ex.q / ex.q:
        uniqueValues: true
  no-blank:
    targetClass: ex.T
    message: values must not contain a blank
    propertyConstraints:
      ex.p | ex.q | ex.r:
        pattern: "^[^ ]*$"
  data-required:
    targetClass: ex.T
    message: data required
    propertyConstraints:
      ex.data:
        minCount: 1
  security-class:
    targetClass: ex.security
    message: security nodes need core
    propertyConstraints:
      ex.core:
        minCount: 1
  count-p:
    targetClass: ex.T
    message: at least two p
    propertyConstraints:
      ex.p:
        minCount: 2
  values-q:
    targetClass: ex.T
    message: q values
    propertyConstraints:
      ex.q:
        in: [ nothing ]
  nested-p:
    targetClass: ex.T
    message: children need q
    propertyConstraints:
      ex.p:
        nested:
          propertyConstraints:
            ex.q:
              minCount: 1
  inverse-p:
    targetClass: ex.T
    message: nobody may point here through p
    propertyConstraints:
      ex.p^:
        maxCount: 0
  types:
    targetClass: ex.T
    message: must be a C1
    propertyConstraints:
      "@type":
        containsAll: [ "http://example.org/ns#C1" ]
  pattern-r:
    targetClass: ex.T
    message: r must end in 1
    propertyConstraints:
      ex.r:
        pattern: "1$"
`

func stripNS(s string) string {
	s = strings.TrimPrefix(s, nodeNS)
	s = strings.TrimPrefix(s, exNS)
	return strings.TrimPrefix(s, "lit-")
}

func runReser(c rsCase) (o rsObs) {
	o.ID = c.ID
	o.Ids = map[string]map[string][]string{}
	o.Types = map[string][]string{}
	o.Results = []string{}
	defer func() {
		if r := recover(); r != nil {
			o.Err = fmt.Sprint("panic: ", r)
		}
	}()
	if c.Before != nil {
		// the twin document first, through both validating entry points; whatever it leaves behind must not matter
		bt := c.Before.render()
		func() {
			defer func() { recover() }()
			pkg.ValidateWithConfiguration(reserProfile, bt, false, nil, clockA, config.DefaultReportConfiguration())
			if h, err := pkg.CompileProfile(reserProfile, false, nil); err == nil {
				pkg.ValidateCompiled(h, bt, false, nil)
			}
		}()
	}
	text := c.render()
	o.Text = text
	idx, err := verifexport.ProcessInput(text)
	if err != nil {
		o.Err = "ProcessInput: " + err.Error()
		return
	}
	// round-trip through JSON so that the projection sees plain maps whatever the concrete types are
	raw, _ := json.Marshal(idx)
	var m map[string]any
	if err := json.Unmarshal(raw, &m); err != nil {
		o.Err = "index is not a JSON object"
		return
	}
	ids, _ := m["@ids"].(map[string]any)
	for id, nv := range ids {
		node, _ := nv.(map[string]any)
		props := map[string][]string{}
		for k, v := range node {
			if k == "@id" || k == "@type" {
				continue
			}
			var vals []any
			if arr, ok := v.([]any); ok {
				vals = arr
			} else {
				vals = []any{v}
			}
			for _, x := range vals {
				if ref, ok := x.(map[string]any); ok {
					if rid, ok := ref["@id"].(string); ok {
						props[stripNS(k)] = append(props[stripNS(k)], stripNS(rid))
						continue
					}
					b, _ := json.Marshal(ref)
					props[stripNS(k)] = append(props[stripNS(k)], string(b))
					continue
				}
				props[stripNS(k)] = append(props[stripNS(k)], stripNS(scalarString(x)))
			}
		}
		for k := range props {
			sort.Strings(props[k])
		}
		o.Ids[stripNS(id)] = props
	}
	types, _ := m["@types"].(map[string]any)
	for cl, v := range types {
		arr, _ := v.([]any)
		for _, x := range arr {
			o.Types[stripNS(cl)] = append(o.Types[stripNS(cl)], stripNS(scalarString(x)))
		}
		sort.Strings(o.Types[stripNS(cl)])
	}
	rep, err := pkg.ValidateWithConfiguration(reserProfile, text, false, nil, clockA, config.DefaultReportConfiguration())
	if err != nil {
		o.Err = "Validate: " + err.Error()
		return
	}
	var doc []map[string]any
	if err := json.Unmarshal([]byte(rep), &doc); err != nil {
		o.Err = "report: " + err.Error()
		return
	}
	enc, _ := doc[0]["doc:encodes"].([]any)
	node, _ := enc[0].(map[string]any)
	o.Conforms, _ = node["conforms"].(bool)
	seen := map[string]bool{}
	res, _ := node["result"].([]any)
	for _, r := range res {
		rm, _ := r.(map[string]any)
		key := fmt.Sprintf("%s|%s|%s|%s", stripNS(strings.TrimPrefix(scalarString(rm["resultSeverity"]), "http://www.w3.org/ns/shacl#")),
			scalarString(rm["sourceShapeName"]), stripNS(scalarString(rm["focusNode"])), scalarString(rm["resultMessage"]))
		if !seen[key] {
			seen[key] = true
			o.Results = append(o.Results, key)
		}
	}
	sort.Strings(o.Results)
	if c.KeepText {
		o.Profile = reserProfile
	} else {
		o.Text = ""
	}
	return
}

func init() {
	commands["reser"] = func(args []string) error {
		if len(args) != 2 {
			return fmt.Errorf("usage: acvh reser <in.ndjson> <out.ndjson>")
		}
		w, err := newNDWriter(args[1])
		if err != nil {
			return err
		}
		if err := readLines(args[0], func(b []byte) error {
			var c rsCase
			if err := json.Unmarshal(b, &c); err != nil {
				return err
			}
			return w.write(runReser(c))
		}); err != nil {
			return err
		}
		return w.close()
	}
}
