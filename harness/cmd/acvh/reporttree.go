package main

import (
	"encoding/json"
	"fmt"
	"os"
	"sort"
	"strings"

	"github.com/aml-org/amf-custom-validator/pkg"
	"github.com/aml-org/amf-custom-validator/pkg/config"
)

// reporttree: runs a logic-style case (optionally with AMF-shaped lexical
// source maps added to the graph) and projects the whole report to a generic
// tree of typed nodes, for validation against spec/trace/ReportTrace.tla
// (C12: ids, grounding, completeness) and comparison with the locations the
// specification prescribes (C14).
type lexSpec struct {
	Range     []any `json:"range"`     // l1, c1, l2, c2 (numbers, or digit strings for magnitudes beyond 2^53)
	NodeLevel bool  `json:"nodeLevel"` // entry whose element is the node id
	PropLevel bool  `json:"propLevel"` // entry whose element is a property IRI (never indexed)
}

type rtCase struct {
	logicCase
	Lexical    map[string]lexSpec  `json:"lexical"`
	HasSource  bool                `json:"hasSource"` // BaseUnitSourceInformation present
	Root       string              `json:"root"`
	Additional map[string][]string `json:"additional"` // file -> node names
	Level      map[string]string   `json:"level"`      // fid -> level (default violation)
	RangeStyle int                 `json:"rangeStyle"`
	// IdStyle 1: hierarchical node ids, the way AMF writes them (the id of k1 extends the id of t1 with "/k1", t2 sits
	// under k1): whether a node is listed in a file's location information is a matter of ITS id only
	IdStyle int `json:"idStyle,omitempty"`
	CtxRef     int                 `json:"ctxRef"`          // 0: absolute ids; 1, 2: ids through a context document named by reference
	Stripped   bool                `json:"compareStripped"` // also validate the same graph without source maps
	Messages   map[string]any      `json:"messages"`        // fid -> message value written in the profile (any YAML value)
}

type rtNode struct {
	ID      string              `json:"id"`
	Kind    string              `json:"kind"`
	Scalars map[string]string   `json:"scalars"`
	Maps    map[string]rtNode   `json:"maps"`
	Arrays  map[string][]rtNode `json:"arrays"`
}

type rtObs struct {
	ID          string   `json:"id"`
	Err         string   `json:"err,omitempty"`
	Valid       string   `json:"valid"`
	Report      *rtNode  `json:"report,omitempty"`
	InstanceIDs []string `json:"instanceIds"` // ids of the dialect instance and processing data nodes
	GraphIDs    []string `json:"graphIds"`
	Validations []string `json:"validations"`
	// with compareStripped: the report of the graph without source maps equals this one minus its location nodes
	StrippedEqual string `json:"strippedEqual,omitempty"` // "yes" | "no: ..."
}

const smNS = "http://a.ml/vocabularies/document-source-maps#"
const docNS = "http://a.ml/vocabularies/document#"

func rangeString(rr []any, style int) string {
	r := make([]string, 4)
	for i := range r {
		switch v := rr[i].(type) {
		case string:
			r[i] = v
		case float64:
			r[i] = fmt.Sprintf("%d", int64(v))
		default:
			r[i] = fmt.Sprint(v)
		}
	}
	switch style % 3 {
	case 1:
		return fmt.Sprintf("[(%s, %s)-(%s, %s)]", r[0], r[1], r[2], r[3])
	case 2:
		return fmt.Sprintf("[(%s,%s) - (%s,%s)]", r[0], r[1], r[2], r[3])
	}
	return fmt.Sprintf("[(%s,%s)-(%s,%s)]", r[0], r[1], r[2], r[3])
}

// withSourceMaps appends SourceMap / lexical entry / BaseUnitSourceInformation nodes in the shape AMF emits.
func withSourceMaps(graph []any, c rtCase) []any {
	names := make([]string, 0, len(c.Lexical))
	for n := range c.Lexical {
		names = append(names, n)
	}
	sort.Strings(names)
	for _, n := range names {
		ls := c.Lexical[n]
		id := nodeNS + n
		var entries []any
		k := 0
		if ls.PropLevel {
			eid := fmt.Sprintf("%s/source-map/lexical/element_%d", id, k)
			k++
			entries = append(entries, map[string]any{"@id": eid})
			graph = append(graph, map[string]any{"@id": eid, smNS + "element": exNS + "a1", smNS + "value": rangeString([]any{900, 901, 902, 903}, c.RangeStyle)})
		}
		if ls.NodeLevel {
			eid := fmt.Sprintf("%s/source-map/lexical/element_%d", id, k)
			entries = append(entries, map[string]any{"@id": eid})
			graph = append(graph, map[string]any{"@id": eid, smNS + "element": id, smNS + "value": rangeString(ls.Range, c.RangeStyle)})
		}
		if len(entries) == 0 {
			continue
		}
		var lexical any = entries
		if len(entries) == 1 && c.RangeStyle%2 == 1 {
			lexical = entries[0] // single value instead of a one-element array
		}
		graph = append(graph, map[string]any{"@id": id + "/source-map", "@type": []any{smNS + "SourceMap"}, smNS + "lexical": lexical})
	}
	if c.HasSource {
		info := map[string]any{"@id": "amf://id/BaseUnitSourceInformation", "@type": []any{docNS + "BaseUnitSourceInformation"},
			docNS + "rootLocation": c.Root}
		files := make([]string, 0, len(c.Additional))
		for f := range c.Additional {
			files = append(files, f)
		}
		sort.Strings(files)
		var locs []any
		for i, f := range files {
			lid := fmt.Sprintf("amf://id/BaseUnitSourceInformation/location_%d", i)
			locs = append(locs, map[string]any{"@id": lid})
			var els []any
			for _, n := range c.Additional[f] {
				els = append(els, map[string]any{"@id": nodeNS + n})
			}
			graph = append(graph, map[string]any{"@id": lid, "@type": []any{docNS + "LocationInformation"}, docNS + "location": f, docNS + "elements": els})
		}
		if len(locs) > 0 {
			info[docNS+"additionalLocations"] = locs
		}
		graph = append(graph, info)
	}
	return graph
}

var rtCtxFile string

func kindOf(types any) string {
	arr, _ := types.([]any)
	for _, t := range arr {
		s, _ := t.(string)
		switch {
		case strings.HasSuffix(s, "ValidationResultNode"):
			return "result"
		case strings.HasSuffix(s, "TraceMessageNode"):
			return "trace"
		case strings.HasSuffix(s, "TraceValueNode"):
			return "traceValue"
		case strings.HasSuffix(s, "LocationNode"):
			return "location"
		case strings.HasSuffix(s, "RangeNode"):
			return "range"
		case strings.HasSuffix(s, "PositionNode"):
			return "position"
		case strings.HasSuffix(s, "ReportNode"):
			return "report"
		}
	}
	return "untyped"
}

func scalarString(v any) string {
	switch x := v.(type) {
	case string:
		return x
	case json.Number:
		return x.String()
	case nil:
		return "null"
	default:
		b, _ := json.Marshal(x)
		return string(b)
	}
}

var mixedArrays []string

func projectTree(m map[string]any) rtNode {
	n := rtNode{Scalars: map[string]string{}, Maps: map[string]rtNode{}, Arrays: map[string][]rtNode{}}
	n.ID, _ = m["@id"].(string)
	n.Kind = kindOf(m["@type"])
	for k, v := range m {
		if k == "@id" || k == "@type" {
			continue
		}
		switch x := v.(type) {
		case map[string]any:
			n.Maps[k] = projectTree(x)
		case []any:
			isNodes := len(x) > 0
			someNode := false
			for _, e := range x {
				if _, ok := e.(map[string]any); !ok {
					isNodes = false
				} else {
					someNode = true
				}
			}
			if someNode && !isNodes {
				mixedArrays = append(mixedArrays, k) // a list of nodes holding something that is not a node (e.g. null)
			}
			if isNodes {
				for _, e := range x {
					n.Arrays[k] = append(n.Arrays[k], projectTree(e.(map[string]any)))
				}
			} else {
				n.Scalars[k] = scalarString(x)
			}
		default:
			n.Scalars[k] = scalarString(x)
		}
	}
	return n
}

func runReportTree(c rtCase) (o rtObs) {
	o.ID = c.ID
	o.InstanceIDs = []string{}
	defer func() {
		if r := recover(); r != nil {
			o.Err = fmt.Sprint("panic: ", r)
		}
	}()
	var graph []any
	if err := json.Unmarshal([]byte(renderLogicWorld(c.World, c.Kinds)), &graph); err != nil {
		panic(err)
	}
	for _, g := range graph {
		o.GraphIDs = append(o.GraphIDs, g.(map[string]any)["@id"].(string))
	}
	graph = withSourceMaps(graph, c)
	data, _ := json.Marshal(graph)
	if c.IdStyle == 1 {
		nest := strings.NewReplacer(nodeNS+"t2", nodeNS+"t1/k1/t2", nodeNS+"k1", nodeNS+"t1/k1", nodeNS+"k2", nodeNS+"t1/k2")
		data = []byte(nest.Replace(string(data)))
		for i := range o.GraphIDs {
			o.GraphIDs[i] = nest.Replace(o.GraphIDs[i])
		}
	}
	if c.CtxRef > 0 {
		// node ids written as compact IRIs through a context kept in a separate document, named by reference; that
		// document sits at one location for the whole process and is rewritten for every case (two namespaces in
		// turn), so it has to be read when it is used
		base := nodeNS
		if c.CtxRef == 2 {
			base = "http://example.org/m/"
		}
		text := strings.ReplaceAll(string(data), nodeNS, base)
		text = strings.ReplaceAll(text, `"@id":"`+base, `"@id":"nd:`)
		if rtCtxFile == "" {
			f, err := os.CreateTemp("", "acvh-rtcontext-*.jsonld")
			if err != nil {
				panic(err)
			}
			rtCtxFile = f.Name()
			f.Close()
		}
		cb, _ := json.Marshal(map[string]any{"@context": map[string]any{"nd": base}})
		if err := os.WriteFile(rtCtxFile, cb, 0644); err != nil {
			panic(err)
		}
		pb, _ := json.Marshal(rtCtxFile)
		data = []byte(`{"@context":` + string(pb) + `,"@graph":` + text + `}`)
		for i := range o.GraphIDs {
			o.GraphIDs[i] = base + strings.TrimPrefix(o.GraphIDs[i], nodeNS)
		}
	}
	logicMessages = c.Messages
	prof := renderLogicProfileLevels(c.Formulas, c.Kinds, c.Spell, c.Level)
	logicMessages = nil
	for _, f := range c.Formulas {
		o.Validations = append(o.Validations, f.FID)
	}
	repCfg := config.DefaultReportConfiguration()
	if c.RangeStyle%2 == 0 {
		repCfg = literalReportConfig(repCfg)
	}
	rep, err := pkg.ValidateWithConfiguration(prof, string(data), false, nil, clockA, repCfg)
	if err != nil {
		o.Err = err.Error()
		return
	}
	dec := json.NewDecoder(strings.NewReader(rep))
	dec.UseNumber() // numbers are compared digit by digit, not as float64
	var doc []map[string]any
	if e := dec.Decode(&doc); e != nil {
		o.Valid = "not a JSON array of objects: " + e.Error()
		return
	}
	if dec.More() {
		o.Valid = "trailing content after the JSON document"
		return
	}
	if len(doc) != 1 {
		o.Valid = "not exactly one dialect instance"
		return
	}
	enc, _ := doc[0]["doc:encodes"].([]any)
	if len(enc) != 1 {
		o.Valid = "doc:encodes does not hold exactly one node"
		return
	}
	root, ok := enc[0].(map[string]any)
	if !ok {
		o.Valid = "encoded node is not an object"
		return
	}
	if id, ok := doc[0]["@id"].(string); ok {
		o.InstanceIDs = append(o.InstanceIDs, id)
	}
	if pd, ok := doc[0]["doc:processingData"].([]any); ok {
		for _, p := range pd {
			if pm, ok := p.(map[string]any); ok {
				id, _ := pm["@id"].(string)
				o.InstanceIDs = append(o.InstanceIDs, id)
			}
		}
	}
	mixedArrays = nil
	t := projectTree(root)
	o.Report = &t
	if len(mixedArrays) > 0 {
		o.Valid = "a list of nodes holds an entry that is not a node: " + strings.Join(mixedArrays, ",")
	}
	if c.Stripped {
		c2 := c
		c2.Lexical, c2.HasSource, c2.Stripped = nil, false, false
		o2 := runReportTree(c2)
		switch {
		case o2.Err != "" || o2.Report == nil:
			o.StrippedEqual = "no: stripped graph failed: " + o2.Err + o2.Valid
		default:
			a, _ := json.Marshal(dropLocations(t))
			b, _ := json.Marshal(*o2.Report)
			if string(a) == string(b) {
				o.StrippedEqual = "yes"
			} else {
				o.StrippedEqual = "no: reports differ beyond location nodes"
			}
		}
	}
	return
}

func dropLocations(n rtNode) rtNode {
	out := rtNode{ID: n.ID, Kind: n.Kind, Scalars: n.Scalars, Maps: map[string]rtNode{}, Arrays: map[string][]rtNode{}}
	for k, m := range n.Maps {
		if k == "location" {
			continue
		}
		out.Maps[k] = dropLocations(m)
	}
	for k, arr := range n.Arrays {
		for _, x := range arr {
			out.Arrays[k] = append(out.Arrays[k], dropLocations(x))
		}
	}
	return out
}

func init() {
	commands["reporttree"] = func(args []string) error {
		if len(args) != 2 {
			return fmt.Errorf("usage: acvh reporttree <in.ndjson> <out.ndjson>")
		}
		w, err := newNDWriter(args[1])
		if err != nil {
			return err
		}
		if err := readLines(args[0], func(b []byte) error {
			var c rtCase
			if err := json.Unmarshal(b, &c); err != nil {
				return err
			}
			return w.write(runReportTree(c))
		}); err != nil {
			return err
		}
		return w.close()
	}
}
