------------------------------- MODULE ACV -------------------------------
(***************************************************************************)
(* System state machine of amf-custom-validator (ACV): the public entry    *)
(* points, the seven pipeline stages, the optional caller-owned event      *)
(* channel, the compiled-profile handles and the one shared counter.       *)
(*                                                                         *)
(* One action per stage boundary of the Go code (internal/validator):      *)
(*   ProfileParsing -> RegoGeneration -> RegoCompilation ->                *)
(*   InputDataParsing -> InputDataNormalization -> OpaValidation ->        *)
(*   BuildReport                                                           *)
(* Deliberate deviations of a defective implementation are *named* and     *)
(* switched by CONSTANTs (all FALSE in the design model); the negative-    *)
(* control configs turn one on and TLC must then refute the matching       *)
(* invariant, which shows the invariants are not vacuous.                  *)
(***************************************************************************)
EXTENDS ACVBase

CONSTANTS
  Procs,        \* concurrent callers (goroutines)
  Chans,        \* caller-owned event channels
  NoChan,       \* "no channel supplied"
  GenvarsOf,    \* [Profiles -> Nat] identifiers requested from the shared counter
  MaxCalls,     \* bound on calls started per proc (model bound only)
  \* ---- named deviations (FALSE = design) ----
  SwallowDecodeError,    \* D2: decode failure continues with an empty input
  SplitGenvar,           \* D7: counter++ is a separate read and write
  LeakHandleState,       \* C09 control: Eval results alias handle-owned objects
  CloseOnCompileSuccess, \* C11 control: stand-alone compile closes the channel
  SkipCloseOnError,      \* C11 control: an error path forgets the close
  PanicEscapes,          \* C17 control: a stage failure escapes as a panic
  LockAcrossDispatch     \* C10 control: stage 5 runs under a process-wide lock taken before its
                         \* Start event is dispatched and released after its Done event

Rep(p, d, cfg) == <<"report", p, d, cfg>>        \* uninterpreted report value
Configs == {"default", "alt"}
NoHandle == [prof |-> "none", id |-> 0]

VARIABLES
  pc,       \* [Procs -> "idle" | "ready" | "in" | "closing" | "returned"]
  stage,    \* [Procs -> 0..8] stage index the proc is at
  call,     \* [Procs -> call record]
  ncalls,   \* [Procs -> Nat]
  ev,       \* [Chans -> Seq(Event)] events delivered so far
  closes,   \* [Chans -> Nat] number of close() executed
  owner,    \* [Chans -> Procs \cup {"free"}] proc currently using the channel
  handles,  \* set of [prof, id, dirty]
  gen,      \* the shared counter
  tmp,      \* [Procs -> Nat] register of the split (racy) increment
  names,    \* [Procs -> Seq(Nat)] identifiers handed to the current compilation
  ret       \* [Procs -> outcome record]

vars == <<pc, stage, call, ncalls, ev, closes, owner, handles, gen, tmp, names, ret>>

NoCall == [entry |-> "none", prof |-> "none", doc |-> "none", chan |-> NoChan,
           cfg |-> "default", h |-> 0]
NoRet  == [kind |-> "none", val |-> <<>>]

Init ==
  /\ pc = [p \in Procs |-> "idle"]
  /\ stage = [p \in Procs |-> 0]
  /\ call = [p \in Procs |-> NoCall]
  /\ ncalls = [p \in Procs |-> 0]
  /\ ev = [c \in Chans |-> <<>>]
  /\ closes = [c \in Chans |-> 0]
  /\ owner = [c \in Chans |-> "free"]
  /\ handles = {}
  /\ gen = 0
  /\ tmp = [p \in Procs |-> 0]
  /\ names = [p \in Procs |-> <<>>]
  /\ ret = [p \in Procs |-> NoRet]

Emit(p, e) ==
  LET c == call[p].chan IN
  IF c = NoChan THEN UNCHANGED ev ELSE ev' = [ev EXCEPT ![c] = Append(@, e)]

\* A caller may reuse a channel for the validation that follows a successful
\* stand-alone compilation; otherwise it supplies a fresh (open, empty) one.
ChanUsable(c, e, h) ==
  \/ c = NoChan
  \/ /\ c # NoChan
     /\ owner[c] = "free" /\ closes[c] = 0
     /\ \/ ev[c] = <<>>
        \/ e = "validateCompiled" /\ ev[c] = SubSeq(FullSeq, 1, 6)

DoCall(p, e, prof, d, c, cfg, h) ==
  /\ pc[p] = "idle" /\ ncalls[p] < MaxCalls
  /\ e = "validateCompiled" => \E hd \in handles : hd.id = h
  /\ e # "validateCompiled" => h = 0
  /\ ChanUsable(c, e, h)
  /\ call' = [call EXCEPT ![p] =
       [entry |-> e,
        prof |-> IF e = "validateCompiled"
                   THEN (CHOOSE hd \in handles : hd.id = h).prof ELSE prof,
        doc |-> IF e = "compile" THEN "none" ELSE d,
        chan |-> c, cfg |-> cfg, h |-> h]]
  /\ ncalls' = [ncalls EXCEPT ![p] = @ + 1]
  /\ pc' = [pc EXCEPT ![p] = "ready"]
  /\ stage' = [stage EXCEPT ![p] = FirstStage(e)]
  /\ owner' = IF c = NoChan THEN owner ELSE [owner EXCEPT ![c] = p]
  /\ names' = [names EXCEPT ![p] = <<>>]
  /\ ret' = [ret EXCEPT ![p] = NoRet]
  /\ UNCHANGED <<ev, closes, handles, gen, tmp>>

Call(p) ==
  \E e \in Entries, prof \in Profiles, d \in Docs, c \in Chans \cup {NoChan},
     cfg \in Configs, h \in {0} \cup {hd.id : hd \in handles} :
       DoCall(p, e, prof, d, c, cfg, h)

StartStage(p) ==
  /\ pc[p] = "ready"
  /\ (LockAcrossDispatch /\ stage[p] = 5) =>
        \A q \in Procs \ {p} : ~(pc[q] = "in" /\ stage[q] = 5)
  /\ Emit(p, Ev(stage[p], "Start"))
  /\ pc' = [pc EXCEPT ![p] = "in"]
  /\ UNCHANGED <<stage, call, ncalls, closes, owner, handles, gen, tmp, names, ret>>

\* ---- the shared identifier counter (internal/parser/profile.Genvar) ----
NeedsGenvar(p) ==
  /\ pc[p] = "in" /\ stage[p] = 2
  /\ Len(names[p]) < GenvarsOf[call[p].prof]

Genvar(p) ==
  /\ ~SplitGenvar
  /\ NeedsGenvar(p)
  /\ gen' = gen + 1
  /\ names' = [names EXCEPT ![p] = Append(@, gen + 1)]
  /\ UNCHANGED <<pc, stage, call, ncalls, ev, closes, owner, handles, tmp, ret>>

GenvarRead(p) ==
  /\ SplitGenvar
  /\ NeedsGenvar(p) /\ tmp[p] = 0
  /\ tmp' = [tmp EXCEPT ![p] = gen + 1]
  /\ UNCHANGED <<pc, stage, call, ncalls, ev, closes, owner, handles, gen, names, ret>>

GenvarWrite(p) ==
  /\ SplitGenvar
  /\ NeedsGenvar(p) /\ tmp[p] # 0
  /\ gen' = tmp[p]
  /\ names' = [names EXCEPT ![p] = Append(@, tmp[p])]
  /\ tmp' = [tmp EXCEPT ![p] = 0]
  /\ UNCHANGED <<pc, stage, call, ncalls, ev, closes, owner, handles, ret>>

StageWorkDone(p) == stage[p] = 2 => Len(names[p]) = GenvarsOf[call[p].prof]

Fails(p) == FailStage(call[p].prof, call[p].doc) = stage[p]

Outcome(p) ==
  LET c == call[p] IN
  IF c.entry = "compile"
    THEN [kind |-> "handle", val |-> <<c.prof>>]
    ELSE IF LeakHandleState /\ c.h # 0
      THEN [kind |-> "report",
            val |-> <<Rep(c.prof, c.doc, c.cfg), (CHOOSE hd \in handles : hd.id = c.h).dirty>>]
      ELSE [kind |-> "report", val |-> <<Rep(c.prof, c.doc, c.cfg), "clean">>]

FinishStage(p) ==
  /\ pc[p] = "in" /\ StageWorkDone(p)
  /\ \/ ~Fails(p)
     \/ SwallowDecodeError /\ stage[p] = 4   \* D2: error dropped, input := ""
  /\ IF SwallowDecodeError /\ stage[p] = 4 /\ Fails(p)
       THEN UNCHANGED ev                     \* as shipped: no Done event either
       ELSE Emit(p, Ev(stage[p], "Done"))
  /\ IF stage[p] = LastStage(call[p].entry)
       THEN /\ pc' = [pc EXCEPT ![p] = "closing"]
            /\ ret' = [ret EXCEPT ![p] = Outcome(p)]
            /\ UNCHANGED stage
            /\ IF LeakHandleState /\ call[p].h # 0
                 THEN handles' = {IF hd.id = call[p].h
                                    THEN [hd EXCEPT !.dirty = call[p].doc] ELSE hd
                                  : hd \in handles}
                 ELSE UNCHANGED handles
       ELSE /\ pc' = [pc EXCEPT ![p] = "ready"]
            /\ stage' = [stage EXCEPT ![p] =
                 IF SwallowDecodeError /\ stage[p] = 4 /\ Fails(p) THEN 6 ELSE @ + 1]
            /\ UNCHANGED <<ret, handles>>
  /\ UNCHANGED <<call, ncalls, closes, owner, gen, tmp, names>>

ErrRet == [kind |-> "error", val |-> <<>>]

\* failure noticed before the stage's Done event is sent
FailMid(p) ==
  /\ pc[p] = "in" /\ Fails(p) /\ StageWorkDone(p)
  /\ ~(SwallowDecodeError /\ stage[p] = 4)
  /\ pc' = [pc EXCEPT ![p] = IF PanicEscapes THEN "panicked" ELSE "closing"]
  /\ ret' = [ret EXCEPT ![p] = ErrRet]
  /\ UNCHANGED <<stage, call, ncalls, ev, closes, owner, handles, gen, tmp, names>>

\* failure reported after the stage's Done event
FailAtDone(p) ==
  /\ pc[p] = "in" /\ Fails(p) /\ StageWorkDone(p)
  /\ ~(SwallowDecodeError /\ stage[p] = 4)
  /\ Emit(p, Ev(stage[p], "Done"))
  /\ pc' = [pc EXCEPT ![p] = "closing"]
  /\ ret' = [ret EXCEPT ![p] = ErrRet]
  /\ UNCHANGED <<stage, call, ncalls, closes, owner, handles, gen, tmp, names>>

MustClose(p) ==
  /\ call[p].chan # NoChan
  /\ \/ Validating(call[p].entry) /\ ~(SkipCloseOnError /\ ret[p].kind = "error")
     \/ ret[p].kind = "error" /\ ~SkipCloseOnError
     \/ CloseOnCompileSuccess

Close(p) ==
  /\ pc[p] = "closing"
  /\ IF MustClose(p)
       THEN closes' = [closes EXCEPT ![call[p].chan] = @ + 1]
       ELSE UNCHANGED closes
  /\ pc' = [pc EXCEPT ![p] = "returned"]
  /\ UNCHANGED <<stage, call, ncalls, ev, owner, handles, gen, tmp, names, ret>>

NextHandleId == Cardinality(handles) + 1

Return(p) ==
  /\ pc[p] = "returned"
  /\ pc' = [pc EXCEPT ![p] = "idle"]
  /\ stage' = [stage EXCEPT ![p] = 0]
  /\ handles' = IF ret[p].kind = "handle"
                  THEN handles \cup {[prof |-> call[p].prof, id |-> NextHandleId, dirty |-> "clean"]}
                  ELSE handles
  /\ owner' = IF call[p].chan = NoChan THEN owner ELSE [owner EXCEPT ![call[p].chan] = "free"]
  /\ UNCHANGED <<call, ncalls, ev, closes, gen, tmp, names, ret>>

ProcStep(p) ==
  \/ StartStage(p) \/ Genvar(p) \/ GenvarRead(p) \/ GenvarWrite(p)
  \/ FinishStage(p) \/ FailMid(p) \/ FailAtDone(p) \/ Close(p) \/ Return(p)

Next == \E p \in Procs : Call(p) \/ ProcStep(p)

SafeSpec == Init /\ [][Next]_vars
Spec == SafeSpec /\ \A p \in Procs : WF_vars(ProcStep(p))

---------------------------------------------------------------------------
(* Properties *)

TypeOK ==
  /\ pc \in [Procs -> {"idle", "ready", "in", "closing", "returned", "panicked"}]
  /\ stage \in [Procs -> 0..7]
  /\ \A c \in Chans : closes[c] \in Nat
  /\ gen \in Nat

\* C11 --------------------------------------------------------------------
\* the events on a channel are a prefix of the pipeline's stage order; Start
\* and Done alternate, so a Done is preceded by its Start and stages never
\* overlap.
WellBracketed ==
  \A c \in Chans : IsPrefix(ev[c], FullSeq) \/ IsPrefix(ev[c], TailSeq)

ClosedAtMostOnce == \A c \in Chans : closes[c] <= 1

\* at the moment a call returns: validating calls and failed compilations
\* have closed the channel exactly once, a successful stand-alone compilation
\* has left it open.
ClosedExactlyOnceAtReturn ==
  \A p \in Procs :
    (pc[p] = "returned" /\ call[p].chan # NoChan) =>
       IF Validating(call[p].entry) \/ ret[p].kind = "error"
         THEN closes[call[p].chan] = 1
         ELSE closes[call[p].chan] = 0

\* nothing is sent on a closed channel (it would panic in Go)
NoSendAfterClose ==
  [][\A c \in Chans : closes[c] > 0 => ev'[c] = ev[c]]_vars

\* the event history is consistent with the outcome
EventsMatchOutcome ==
  \A p \in Procs :
    (pc[p] = "returned" /\ call[p].chan # NoChan) =>
       LET es == ev[call[p].chan] IN
       CASE ret[p].kind = "report" -> es = FullSeq \/ es = TailSeq
         [] ret[p].kind = "handle" -> es = SubSeq(FullSeq, 1, 6)
         [] OTHER -> Len(es) >= 1

MilestonesOnePerCompletedStage ==
  \A c \in Chans :
    \A i \in StageIdx :
      HasOperation(i) =>
        Cardinality({n \in 1..Len(MilestoneOps(ev[c])) : MilestoneOps(ev[c])[n] = Stages[i]})
          = Cardinality({n \in 1..Len(ev[c]) : ev[c][n] = Ev(i, "Done")})

\* C04 --------------------------------------------------------------------
NoVerdictOnUnreadable ==
  \A p \in Procs :
    (pc[p] \in {"closing", "returned"} /\ call[p].entry # "compile"
       /\ call[p].doc \in DOMAIN DClass
       /\ DClass[call[p].doc] \in Unreadable) => ret[p].kind # "report"

\* C17 --------------------------------------------------------------------
OutcomeIsReportOrError ==
  \A p \in Procs :
    /\ pc[p] # "panicked"
    /\ pc[p] = "returned" =>
        /\ ret[p].kind \in {"report", "error", "handle"}
        /\ (ret[p].kind = "handle") => call[p].entry = "compile"
        /\ (ret[p].kind = "report") => Validating(call[p].entry)
        /\ (FailStage(call[p].prof, call[p].doc) \notin
              FirstStage(call[p].entry)..LastStage(call[p].entry))
             => ret[p].kind # "error"

NoNodesConforms ==
  \A p \in Procs :
    (pc[p] = "returned" /\ Validating(call[p].entry)
       /\ PClass[call[p].prof] = "ok" /\ DClass[call[p].doc] = "okNoNodes")
      => ret[p].kind = "report"

EveryCallReturns == \A p \in Procs : (pc[p] # "idle") ~> (pc[p] = "idle")

\* C09 --------------------------------------------------------------------
\* every report equals the one a fresh validation of the same texts gives,
\* whatever the handle was used for before
HistoryIndependent ==
  \A p \in Procs :
    (pc[p] = "returned" /\ ret[p].kind = "report") =>
       ret[p].val = <<Rep(call[p].prof, call[p].doc, call[p].cfg), "clean">>

HandlesOnlyGrowByCompile ==
  [][handles' # handles =>
        \E p \in Procs : pc[p] = "returned" /\ ret[p].kind = "handle"
                         /\ handles \subseteq handles']_vars

\* C10 --------------------------------------------------------------------
\* identifiers handed to one compilation are pairwise distinct, and no
\* identifier is handed to two compilations
SeqToSet(s) == {s[i] : i \in 1..Len(s)}
NamesDistinctPerCompilation ==
  \A p \in Procs : Cardinality(SeqToSet(names[p])) = Len(names[p])
NamesGloballyDistinct ==
  \A p, q \in Procs :
    (p # q /\ pc[p] \in {"in", "ready"} /\ pc[q] \in {"in", "ready"}
        /\ stage[p] <= 3 /\ stage[q] <= 3)
      => SeqToSet(names[p]) \cap SeqToSet(names[q]) = {}
\* what a call returns does not depend on what the other procs are doing
InterleavingIndependent ==
  \A p \in Procs :
    pc[p] = "returned" =>
      ret[p].kind =
        (IF FailStage(call[p].prof, call[p].doc) \in
              FirstStage(call[p].entry)..LastStage(call[p].entry)
           THEN "error"
           ELSE IF call[p].entry = "compile" THEN "handle" ELSE "report")

\* no call ever waits for another one: a call that has been made and has not
\* returned can take its next step in every reachable state, wherever the
\* other calls are (for the implementation: also while another call rests in
\* the dispatch of an event its listener has not taken yet -- bound by the
\* "stall" replay of lib/c10.py, which parks call A at each of its events
\* and runs call B to completion)
StepsNeverWaitForOthers ==
  \A p \in Procs : pc[p] \notin {"idle", "panicked"} => ENABLED ProcStep(p)

=============================================================================
