------------------------------- MODULE Logic -------------------------------
(***************************************************************************)
(* The constraint language of validation profiles.                         *)
(*                                                                         *)
(*  - Formula ASTs and their CLASSICAL semantics Sat (the oracle: this is  *)
(*    the statement of property C01).                                      *)
(*  - A transcription of what the Go code does, shaped like the code:      *)
(*      Parse / Negate   = internal/parser/profile (parseNot -> Negate():  *)
(*                         negation pushed to the leaves at parse time)    *)
(*      Branches         = internal/generator (GenerateAnd: one failure    *)
(*                         branch per conjunct; GenerateOr/expandBranches: *)
(*                         cross product; GenerateConditional: material    *)
(*                         implications; generateNested: failed-children   *)
(*                         counting)                                       *)
(*      Fires            = one `level[matches] { ... }` rule body in Rego  *)
(*  - The design theorem: some branch fires at n  <=>  ~Sat(f, n).         *)
(*                                                                         *)
(* AsShippedNegateConditional = TRUE reproduces ConditionalRule.Negate of  *)
(* the pinned tree (the else branch is dropped); TLC then refutes the      *)
(* theorem -- the negative control.                                        *)
(***************************************************************************)
EXTENDS Naturals, Sequences, FiniteSets, TLC

CONSTANT AsShippedNegateConditional

\* ---- formulas ----------------------------------------------------------
Atom(i)        == [k |-> "atom", i |-> i]
Not(x)         == [k |-> "not", x |-> x]
And(xs)        == [k |-> "and", xs |-> xs]
Or(xs)         == [k |-> "or", xs |-> xs]
Ite(c, t)      == [k |-> "ite", c |-> c, t |-> t]
Itee(c, t, e)  == [k |-> "itee", c |-> c, t |-> t, e |-> e]
\* quantified constraints over the children reached through path p:
\*   q = "nested" (every child), "atLeast" / "atMost" (count n of satisfying children)
Q(q, n, p, x)  == [k |-> "q", q |-> q, n |-> n, p |-> p, x |-> x]

\* ---- worlds ------------------------------------------------------------
\* W.val[n][i]  truth of atom i at node n ;  W.kids[n][p] children of n through path p
Card(S) == Cardinality(S)

RECURSIVE Sat(_, _, _)
Sat(f, n, W) ==
  CASE f.k = "atom" -> W.val[n][f.i]
    [] f.k = "not"  -> ~Sat(f.x, n, W)
    [] f.k = "and"  -> \A j \in 1..Len(f.xs) : Sat(f.xs[j], n, W)
    [] f.k = "or"   -> \E j \in 1..Len(f.xs) : Sat(f.xs[j], n, W)
    [] f.k = "ite"  -> Sat(f.c, n, W) => Sat(f.t, n, W)
    [] f.k = "itee" -> IF Sat(f.c, n, W) THEN Sat(f.t, n, W) ELSE Sat(f.e, n, W)
    [] f.k = "q"    ->
         LET good == {m \in W.kids[n][f.p] : Sat(f.x, m, W)} IN
         CASE f.q = "nested"  -> good = W.kids[n][f.p]
           [] f.q = "atLeast" -> Card(good) >= f.n
           [] f.q = "atMost"  -> Card(good) <= f.n

Reported(f, W) == {n \in W.targets : ~Sat(f, n, W)}

\* ---- what the parser builds (negation pushed down) ----------------------
\* rules: atom(i, neg) | and(xs) | or(xs) | cond(neg, c, t, e: <<>> or <<rule>>) | q(q, n, p, neg, x: rule)
RECURSIVE Negate(_)
Negate(r) ==
  CASE r.k = "atom" -> [r EXCEPT !.neg = ~r.neg]
    [] r.k = "and"  -> [k |-> "or",  xs |-> [j \in 1..Len(r.xs) |-> Negate(r.xs[j])]]
    [] r.k = "or"   -> [k |-> "and", xs |-> [j \in 1..Len(r.xs) |-> Negate(r.xs[j])]]
    [] r.k = "q"    -> [r EXCEPT !.neg = ~r.neg]
    [] r.k = "cond" ->
         IF r.e = <<>> \/ AsShippedNegateConditional
           THEN [r EXCEPT !.neg = ~r.neg, !.e = <<>>]     \* as shipped: else silently dropped
           ELSE \* ~((c -> t) /\ (~c -> e))  ==  (c /\ ~t) \/ (~c /\ ~e)
                [k |-> "or", xs |-> << [k |-> "and", xs |-> <<r.c, Negate(r.t)>>],
                                       [k |-> "and", xs |-> <<Negate(r.c), Negate(r.e[1])>>] >>]

RECURSIVE Parse(_)
Parse(f) ==
  CASE f.k = "atom" -> [k |-> "atom", i |-> f.i, neg |-> FALSE]
    [] f.k = "not"  -> Negate(Parse(f.x))
    [] f.k = "and"  -> [k |-> "and", xs |-> [j \in 1..Len(f.xs) |-> Parse(f.xs[j])]]
    [] f.k = "or"   -> [k |-> "or",  xs |-> [j \in 1..Len(f.xs) |-> Parse(f.xs[j])]]
    [] f.k = "ite"  -> [k |-> "cond", neg |-> FALSE, c |-> Parse(f.c), t |-> Parse(f.t), e |-> <<>>]
    [] f.k = "itee" -> [k |-> "cond", neg |-> FALSE, c |-> Parse(f.c), t |-> Parse(f.t), e |-> <<Parse(f.e)>>]
    [] f.k = "q"    -> [k |-> "q", q |-> f.q, n |-> f.n, p |-> f.p, neg |-> FALSE, x |-> Parse(f.x)]

\* ---- what the generator emits: a list of failure branches ----------------
\* a branch is a sequence of leaves (atom or q rules); it fires when every leaf's
\* error condition holds.  IsSimple mirrors SimpleRegoResult vs BranchRegoResult.
IsSimple(r) == r.k = "atom"

SeqConcatAll(ss) ==      \* flatten a sequence of sequences
  LET RECURSIVE go(_, _)
      go(i, acc) == IF i > Len(ss) THEN acc ELSE go(i + 1, acc \o ss[i])
  IN go(1, <<>>)

RECURSIVE Branches(_)
BranchesAnd(xs) ==       \* GenerateAnd: every conjunct contributes its own branch(es)
  SeqConcatAll([j \in 1..Len(xs) |-> IF IsSimple(xs[j]) THEN << <<xs[j]>> >> ELSE Branches(xs[j])])

BranchesOr(xs) ==        \* GenerateOr + expandBranches
  LET simples == SelectSeq(xs, IsSimple)
      complex == SelectSeq(xs, LAMBDA r : ~IsSimple(r))
      sets    == [j \in 1..Len(complex) |-> Branches(complex[j])]
      RECURSIVE expand(_, _)
      expand(j, acc) ==
        IF j > Len(sets) THEN acc
        ELSE IF Len(sets[j]) = 0 THEN expand(j + 1, acc)       \* `if len(branches) > 0`
        ELSE expand(j + 1,
               SeqConcatAll([b \in 1..Len(sets[j]) |->
                              [s \in 1..Len(acc) |-> acc[s] \o sets[j][b]]]))
  IN expand(1, << simples >>)

Branches(r) ==
  CASE r.k = "atom" -> << <<r>> >>
    [] r.k = "q"    -> << <<r>> >>                 \* one BranchRegoResult holding one leaf
    [] r.k = "and"  -> BranchesAnd(r.xs)
    [] r.k = "or"   -> BranchesOr(r.xs)
    [] r.k = "cond" ->                              \* GenerateConditional
         LET thenMI == <<Negate(r.c), r.t>>         \* c -> t  ==  ~c \/ t
             elseMI == IF r.e = <<>> THEN <<>> ELSE <<r.c, r.e[1]>>
             mi(xs) == IF r.neg
                         THEN BranchesAnd([j \in 1..Len(xs) |-> Negate(xs[j])])   \* negated Or -> And
                         ELSE BranchesOr(xs)
         IN mi(thenMI) \o (IF r.e = <<>> THEN <<>> ELSE mi(elseMI))

RECURSIVE LeafFails(_, _, _)
BranchFires(b, n, W) == \A j \in 1..Len(b) : LeafFails(b[j], n, W)
AnyFires(bs, n, W)   == \E j \in 1..Len(bs) : BranchFires(bs[j], n, W)

LeafFails(r, n, W) ==
  IF r.k = "atom" THEN (IF r.neg THEN W.val[n][r.i] ELSE ~W.val[n][r.i])
  ELSE \* generateNested: the set of children for which some inner branch fires
    LET kids   == W.kids[n][r.p]
        inner  == Branches(r.x)
        errors == {m \in kids : AnyFires(inner, m, W)}
        succ   == Card(kids) - Card(errors)
    IN CASE r.q = "nested"  -> IF r.neg THEN Card(errors) = 0 ELSE Card(errors) > 0
         [] r.q = "atLeast" -> IF r.neg THEN succ >= r.n ELSE ~(succ >= r.n)
         [] r.q = "atMost"  -> IF r.neg THEN succ <= r.n ELSE ~(succ <= r.n)

CodeReported(f, W) == {n \in W.targets : AnyFires(Branches(Parse(f)), n, W)}

\* ---- the design theorem --------------------------------------------------
Correct(f, W) == CodeReported(f, W) = Reported(f, W)

\* meaning does not depend on spelling (checked on every formula of the scope)
SpellingInvariant(f, W) ==
  /\ Reported(Not(Not(f)), W) = Reported(f, W)
  /\ f.k \in {"and", "or"} /\ Len(f.xs) = 2 =>
       /\ Reported([f EXCEPT !.xs = <<f.xs[2], f.xs[1]>>], W) = Reported(f, W)
       /\ Reported(Not(f), W) =
            Reported([k |-> IF f.k = "and" THEN "or" ELSE "and", xs |-> <<Not(f.xs[1]), Not(f.xs[2])>>], W)
  /\ f.k = "itee" => Reported(f, W) = Reported(And(<<Ite(f.c, f.t), Ite(Not(f.c), f.e)>>), W)
  /\ f.k = "ite" => Reported(f, W) = Reported(Or(<<Not(f.c), f.t>>), W)
  /\ f.k = "q" /\ f.q = "atMost" => Reported(f, W) = Reported(Not(Q("atLeast", f.n + 1, f.p, f.x)), W)
  /\ f.k = "q" /\ f.q = "nested" => Reported(Not(f), W) = Reported(Q("atLeast", 1, f.p, Not(f.x)), W)
=============================================================================
