---- MODULE MCSandbox ----
EXTENDS Sandbox
DesignDenyList == {"http.send", "net.lookup_ip_addr", "opa.runtime", "rego.parse_module", "walk"}
ShippedDenyList == {"http.send", "opa.runtime", "rego.parse_module", "walk"}
====
