---- MODULE MCShapeCases ----
EXTENDS ShapeCases
ShippedTable == <<"x", "y", "z", "p", "q", "r", "s", "t", "u", "v", "w", "a", "b", "c", "d", "e", "f", "g", "h",
                  "i", "j", "k", "l", "m", "n", "o">>
DesignTable == <<"x", "y", "z", "p", "q", "r", "s", "t", "u", "v", "w", "b", "c", "d", "e", "f", "g", "h",
                 "i", "j", "k", "l", "m", "n", "o">>
====
