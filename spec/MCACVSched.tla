---- MODULE MCACVSched ----
EXTENDS ACVSched
CCProfiles == {"pOk", "pOk2", "pRego"}
CCDocs == {"dOk", "dOk2", "dNotJson"}
CCPClass == [p \in CCProfiles |-> IF p = "pRego" THEN "regoError" ELSE "ok"]
CCDClass == [d \in CCDocs |-> IF d = "dNotJson" THEN "notJson" ELSE "ok"]
CCGenvarsOf == [p \in CCProfiles |-> 2]
====
