---------------------------- MODULE ReportIdCases ----------------------------
(***************************************************************************)
(* C12: the positional @id scheme on every uniform report-tree shape of    *)
(* depth <= 3 (1..3 traces per result, 0..2 sub-results per trace value,   *)
(* with / without location nodes per level).                               *)
(***************************************************************************)
EXTENDS Report
CONSTANTS Part, NParts
Shapes == [depth : 1..3, tr : [1..3 -> 1..3], sr : [1..3 -> 0..2], loc : [1..3 -> BOOLEAN]]
VARIABLE sh
IdInit == sh \in {x \in Shapes : (x.tr[1] + 3 * x.tr[2] + 5 * x.sr[1] + 7 * x.sr[2] + x.depth) % NParts = Part}
IdNext == UNCHANGED sh
IdsOK == IdsUnique(NodesUnder(RootId("violation", 0), "result", 1, sh)
                    \cup NodesUnder(RootId("violation", 1), "result", 1, sh)
                    \cup NodesUnder(RootId("warning", 0), "result", 1, sh))
TwoArraysWouldCollide == Cardinality(CollidingIds) = 2     \* negative control: must be violated
=============================================================================
