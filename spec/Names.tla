------------------------------- MODULE Names -------------------------------
(***************************************************************************)
(* Identifiers the translator invents (internal/parser/profile/            *)
(* vargenerator.go, internal/generator/nested.go, expression.go) and the   *)
(* words of the policy language they must stay clear of.                   *)
(*                                                                         *)
(* A validation owns one VarGenerator: the target variable is index 0 and  *)
(* every nested / atLeast / atMost constraint takes the next index, in     *)
(* parse order.  For the variable v of a quantified constraint the         *)
(* generator also uses v+"s" (the set of reached nodes) and a family of    *)
(* names derived from it by suffixes.                                      *)
(***************************************************************************)
EXTENDS Naturals, Sequences, FiniteSets, TLC

CONSTANT VarTable          \* the letters handed out before falling back to X<n>

VarName(i) == IF i < Len(VarTable) THEN VarTable[i + 1] ELSE "X" \o ToString(i)
Plural(v) == v \o "s"

\* Rego keywords (with the future keywords the preamble imports) and the names the preamble defines
Keywords == {"as", "default", "else", "false", "import", "package", "not", "null", "some", "true", "with",
             "in", "every", "if", "contains", "data", "input"}
PreambleNames == {"find", "nodes_array", "nested", "nested_nodes", "nested_values", "search_subjects",
                  "search_custom_property_subjects", "collect", "collect_values", "check_datatype", "target_class",
                  "as_string", "gen_path_extension", "split_values", "values_contains", "trace", "location", "error",
                  "report", "violation", "warning", "info", "nodes", "message", "matches"}
Reserved == Keywords \cup PreambleNames

\* every identifier derived from variable index i (suffix families are prefix-free of Reserved as soon as the stem is)
NamesOf(i) == {VarName(i), Plural(VarName(i))}

VARIABLE n       \* number of variables allocated so far in one validation
Init == n = 0
Alloc == n' = n + 1
Spec == Init /\ [][Alloc]_n

NoReserved == \A i \in 0..(n - 1) : NamesOf(i) \cap Reserved = {}
DistinctInScope == \A i, j \in 0..(n - 1) : i # j => NamesOf(i) \cap NamesOf(j) = {}
Bound == n <= 60
=============================================================================
