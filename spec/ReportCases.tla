----------------------------- MODULE ReportCases -----------------------------
(***************************************************************************)
(* Scenario enumeration for C03: every distribution of the validation      *)
(* names a, b (defined or not) and ghost (never defined) over the three    *)
(* level lists, every failure pattern of the defined validations on two    *)
(* target nodes, every report configuration.  TLC checks the design facts  *)
(* of Report.tla on each and prints the report the property prescribes.    *)
(***************************************************************************)
EXTENDS Report, Json

CONSTANTS Part, NParts

Names == {"a", "b"}
Listable == {"a", "b", "ghost"}
Nodes == {"n1", "n2"}
\* two ordinary instants and the two ends of the representable range (the zero time is a legal configured time)
Clocks == {"2001-02-03T04:05:06Z", "2031-12-30T23:59:58Z", "0001-01-01T00:00:00Z", "9999-12-31T23:59:59Z"}
\* schema IRIs: both default, both alternative, only one of the two changed, or left empty (the zero value of the
\* field: both, only the report schema, only the lexical schema)
Configs == [includeDate : BOOLEAN, clock : Clocks, schema : {"default", "alt", "altLex", "altRep", "none", "noRep", "noLex"}]
ProfileNames == {"C03 profile", "API \"strict\" rules: 100% 'quoted' \\ back"}

Profiles == [name : ProfileNames, listed : [LevelSet -> SUBSET Listable], defined : SUBSET Names,
             fails : [Names -> SUBSET Nodes]]

\* slicing
Card(S) == Cardinality(S)
Hash(p, c) == (Card(p.listed["violation"]) + 3 * Card(p.listed["warning"]) + 7 * Card(p.listed["info"])
               + 11 * Card(p.defined) + 13 * Card(p.fails["a"]) + 17 * Card(p.fails["b"])
               + (IF "a" \in p.listed["violation"] THEN 19 ELSE 0) + (IF "b" \in p.listed["info"] THEN 23 ELSE 0)
               + (IF c.includeDate THEN 29 ELSE 0) + (IF c.schema = "alt" THEN 31 ELSE 0) + Len(c.schema) * 43
               + (IF p.name = "C03 profile" THEN 0 ELSE 47) + (IF c.clock = "0001-01-01T00:00:00Z" THEN 53 ELSE 0)
               + (IF c.clock = "9999-12-31T23:59:59Z" THEN 59 ELSE 0)
               + (IF "n1" \in p.fails["a"] THEN 37 ELSE 0) + (IF "n2" \in p.fails["b"] THEN 41 ELSE 0)) % NParts

\* undefined validations cannot fail anywhere: normalise so that equal scenarios are one state
Normal(p) == \A v \in Names : v \notin p.defined => p.fails[v] = {}

VARIABLES p, c
Init == /\ p \in {q \in Profiles : Normal(q)} /\ c \in Configs /\ Hash(p, c) = Part
Next == UNCHANGED <<p, c>>

Facts ==
  /\ ConformsIffNoViolation(p, c)
  /\ WarningsNeverBreakConformance(p, c)
  /\ \A c2 \in Configs : ConfigLocality(p, c, c2)
  /\ ReportOf(p, c).hasResultKey = (ReportOf(p, c).results # {})
  /\ \A r \in ReportOf(p, c).results : r.name \in p.defined /\ r.name # "ghost"

Emit == PrintT("CASE " \o ToJson([profile |-> p, cfg |-> c, expect |-> ReportOf(p, c)]))

=============================================================================
