----------------------------- MODULE AtomCases -----------------------------
(***************************************************************************)
(* Case generator for Atoms.tla: one state per (constraint kind, negated). *)
(* The world is one node per pair of value sets (S for p, T for q), 256    *)
(* nodes; a case lists the nodes the validation must report and the nodes  *)
(* on which the expectation is the property's (judged) rather than a       *)
(* transcription of the code's non-classical negated twin (informational). *)
(***************************************************************************)
EXTENDS Atoms, Json

Bits(S) == (IF 1 \in S THEN "1" ELSE "0") \o (IF 2 \in S THEN "1" ELSE "0")
           \o (IF 3 \in S THEN "1" ELSE "0") \o (IF 4 \in S THEN "1" ELSE "0")
Key(S, T) == "s" \o Bits(S) \o "t" \o Bits(T)
Cells == (SUBSET U) \X (SUBSET U)

VARIABLES kind, neg
Init == kind \in Kinds /\ neg \in BOOLEAN
Next == UNCHANGED <<kind, neg>>

Holds(c) == IF neg THEN CodeNegSat(kind, c[1], c[2]) ELSE Sat(kind, c[1], c[2])
Judged(c) == Unambiguous(kind, c[1], c[2]) /\ (neg => NegIsClassical(kind, c[1], c[2]))

DesignFacts == SingleValueNegationIsClassical /\ SinglePairNegationIsClassical /\ CountAndSetNegationIsClassical
\* a property-level fact: on judged cells the negated atom is the complement of the atom
JudgedNegationIsComplement == \A c \in Cells : (neg /\ Judged(c)) => (Holds(c) = ~Sat(kind, c[1], c[2]))

Emit == PrintT("CASE " \o ToJson([kind |-> kind, neg |-> neg,
                                  reported |-> {Key(c[1], c[2]) : c \in {d \in Cells : ~Holds(d)}},
                                  judged |-> {Key(c[1], c[2]) : c \in {d \in Cells : Judged(d)}}]))
=============================================================================
