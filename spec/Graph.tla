------------------------------- MODULE Graph -------------------------------
(***************************************************************************)
(* The input graph as the validator sees it after normalisation            *)
(* (internal/validator/normalizer.go): the index of nodes and classes, and *)
(* the lexical index built from AMF source maps.                           *)
(*                                                                         *)
(* Lexical part (C14).  A document may carry, for a node n,                *)
(*   - a node-level lexical entry  (element = id of n, value = range)      *)
(*   - property-level entries      (element = a property IRI) -- ignored   *)
(* and a BaseUnitSourceInformation node with a root location and           *)
(* additional locations, each listing the nodes declared in that file.     *)
(***************************************************************************)
EXTENDS Naturals, Sequences, FiniteSets, TLC

\* lex: [Nodes -> [mode: "node" | "propOnly" | "none", range: <<l1, c1, l2, c2>>]]
\* src: [root: STRING, additional: [Files -> SUBSET Nodes]]   (Files may be empty)
FileOf(n, src) ==
  IF \E f \in DOMAIN src.additional : n \in src.additional[f]
    THEN CHOOSE f \in DOMAIN src.additional : n \in src.additional[f]
    ELSE src.root

HasLocation(n, lex) == lex[n].mode = "node"

Location(n, lex, src) ==
  [uri |-> FileOf(n, src),
   startLine |-> lex[n].range[1], startColumn |-> lex[n].range[2],
   endLine |-> lex[n].range[3], endColumn |-> lex[n].range[4]]

\* a node is listed in at most one additional location (otherwise "the file it was declared in" is ambiguous)
WellFormedSource(src) ==
  \A f, g \in DOMAIN src.additional : f # g => src.additional[f] \cap src.additional[g] = {}

\* ---- index (C05): what Index() hands to the policy -----------------------
\* G: [nodes, edges \subseteq nodes \X preds \X (nodes \cup lits), types: [nodes -> SUBSET classes]]
IdsIndex(G) == [n \in G.nodes |-> [p \in {e[2] : e \in {e \in G.edges : e[1] = n}} |->
                                     {e[3] : e \in {e \in G.edges : e[1] = n /\ e[2] = p}}]]
TypesIndex(G) == [c \in UNION {G.types[n] : n \in G.nodes} |-> {n \in G.nodes : c \in G.types[n]}]
=============================================================================
