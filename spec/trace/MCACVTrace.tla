---- MODULE MCACVTrace ----
EXTENDS ACVTrace
MCProfiles == {"pOk", "pParse", "pGen", "pRego", "pReport"}
MCDocs == {"dOk", "dNoNodes", "dNotJson", "dLd", "dEval"}
MCPClass == [p \in MCProfiles |->
   CASE p = "pOk" -> "ok" [] p = "pParse" -> "parseError"
     [] p = "pGen" -> "genError" [] p = "pRego" -> "regoError" [] p = "pReport" -> "reportError"]
MCDClass == [d \in MCDocs |->
   CASE d = "dOk" -> "ok" [] d = "dNoNodes" -> "okNoNodes" [] d = "dNotJson" -> "notJson"
     [] d = "dLd" -> "ldReject" [] d = "dEval" -> "evalError"]
\* the shared counter is not observable on the event channel; it is traced separately (C10)
TrGenvarsOf == [p \in MCProfiles |-> 0]
====
