---------------------------- MODULE ReportTrace ----------------------------
(***************************************************************************)
(* Validation of real reports (projected to trees of typed nodes by        *)
(* `acvh reporttree`) against Report.tla: the positional id scheme, the    *)
(* shape grammar, grounding of focus nodes and completeness of results     *)
(* (C12).  One trace line per report:                                      *)
(*   [id, valid, report: node, instanceIds, graphIds, validations]         *)
(*   node = [id, kind, scalars, maps, arrays]                              *)
(* Lines that fail are collected in TLC register 3; the walk never stops.  *)
(***************************************************************************)
EXTENDS Report, Json, IOUtils

Tr == ndJsonDeserialize(IOEnv.REPORT_TRACE)
ToSet(s) == {s[i] : i \in 1..Len(s)}

Has(rec, k) == k \in DOMAIN rec

\* all ids below a node, as a sequence (duplicates kept)
RECURSIVE IdsOf(_)
SeqCat(ss) == LET RECURSIVE go(_, _)
                  go(i, acc) == IF i > Len(ss) THEN acc ELSE go(i + 1, acc \o ss[i])
              IN go(1, <<>>)
DomSeq(rec) == LET RECURSIVE go(_, _)
                   go(S, acc) == IF S = {} THEN acc ELSE LET k == CHOOSE x \in S : TRUE IN go(S \ {k}, Append(acc, k))
               IN go(DOMAIN rec, <<>>)
IdsOf(n) ==
  <<n.id>>
    \o SeqCat([i \in 1..Len(DomSeq(n.maps)) |-> IdsOf(n.maps[DomSeq(n.maps)[i]])])
    \o SeqCat([i \in 1..Len(DomSeq(n.arrays)) |->
                 SeqCat([j \in 1..Len(n.arrays[DomSeq(n.arrays)[i]]) |-> IdsOf(n.arrays[DomSeq(n.arrays)[i]][j])])])

Injective(s) == \A i, j \in 1..Len(s) : i # j => s[i] # s[j]

\* node n sits at the position whose id the scheme says is `id`; it is of kind `kind`
RECURSIVE WF(_, _, _, _, _)
WF(n, id, kind, inSub, ctx) ==
  /\ n.id = id
  /\ n.kind = kind
  /\ DOMAIN n.arrays \subseteq ArraySlots(kind)
  /\ DOMAIN n.maps \subseteq MapSlots(kind)
  /\ \A s \in DOMAIN n.maps : WF(n.maps[s], ChildId(id, s, FALSE, 0), ChildKind(kind, s), inSub, ctx)
  /\ \A s \in DOMAIN n.arrays :
        \A i \in 1..Len(n.arrays[s]) :
           WF(n.arrays[s][i], ChildId(id, s, TRUE, i - 1), ChildKind(kind, s), inSub \/ s = "subResult", ctx)
  /\ CASE kind = "result" ->
            /\ Has(n.scalars, "focusNode") /\ n.scalars["focusNode"] \in ctx.graph
            /\ Has(n.scalars, "sourceShapeName")
            /\ IF inSub THEN n.scalars["sourceShapeName"] = "nested" ELSE n.scalars["sourceShapeName"] \in ctx.validations
            /\ Has(n.scalars, "resultMessage") /\ n.scalars["resultMessage"] # ""
            /\ Has(n.arrays, "trace") /\ Len(n.arrays["trace"]) >= 1
       [] kind = "trace" ->
            /\ Has(n.scalars, "component") /\ n.scalars["component"] # ""
            /\ Has(n.scalars, "resultPath") /\ n.scalars["resultPath"] # ""
            /\ Has(n.maps, "traceValue")
       [] kind = "location" -> Has(n.scalars, "uri") /\ Has(n.maps, "range")
       [] kind = "range" -> Has(n.maps, "start") /\ Has(n.maps, "end")
       [] kind = "position" -> Has(n.scalars, "line") /\ Has(n.scalars, "column")
       [] OTHER -> TRUE

SevLevel(sev) == CASE sev = "http://www.w3.org/ns/shacl#Violation" -> "violation"
                   [] sev = "http://www.w3.org/ns/shacl#Warning" -> "warning"
                   [] sev = "http://www.w3.org/ns/shacl#Info" -> "info"
                   [] OTHER -> "unknown"

ReportOK(line) ==
  LET r == line.report
      ctx == [graph |-> ToSet(line.graphIds), validations |-> ToSet(line.validations)]
      results == IF Has(r.arrays, "result") THEN r.arrays["result"] ELSE <<>>
      level(i) == IF Has(results[i].scalars, "resultSeverity") THEN SevLevel(results[i].scalars["resultSeverity"]) ELSE "unknown"
      ordinal(i) == Cardinality({j \in 1..(i - 1) : level(j) = level(i)})
      allIds == <<r.id>> \o line.instanceIds
                  \o SeqCat([i \in 1..Len(results) |-> IdsOf(results[i])])
  IN /\ line.valid = ""
     /\ r.kind = "report" /\ r.id = "validation-report"
     /\ Has(r.scalars, "conforms")
     /\ r.scalars["conforms"] = (IF \E i \in 1..Len(results) : level(i) = "violation" THEN "false" ELSE "true")
     /\ \A i \in 1..Len(results) :
          /\ level(i) # "unknown"
          /\ WF(results[i], RootId(level(i), ordinal(i)), "result", FALSE, ctx)
     \* violations first, then warnings, then infos
     /\ \A i, j \in 1..Len(results) :
          i < j => ~(level(i) = "warning" /\ level(j) = "violation") /\ ~(level(i) = "info" /\ level(j) # "info")
     /\ Injective(allIds)

VARIABLE l
TInit == l = 1 /\ TLCSet(3, {})
TNext ==
  /\ l <= Len(Tr)
  /\ TLCSet(3, TLCGet(3) \cup (IF ReportOK(Tr[l]) THEN {} ELSE {Tr[l].id}))
  /\ l' = l + 1
TSpec == TInit /\ [][TNext]_l
Summary == PrintT("REJECTED " \o ToJson(TLCGet(3))) /\ PrintT("LINES " \o ToString(Len(Tr)))
=============================================================================
