---------------------------- MODULE ReportTrace ----------------------------
(***************************************************************************)
(* Validation of real reports (projected to trees of typed nodes by        *)
(* `acvh reporttree`): every typed node has an @id and all @ids of the    *)
(* document are pairwise distinct, focus nodes are grounded in the input   *)
(* graph, results are complete (C12).  One trace line per report:                                      *)
(*   [id, valid, report: node, instanceIds, graphIds, validations]         *)
(*   node = [id, kind, scalars, maps, arrays]                              *)
(* Lines that fail are collected in TLC register 3; the walk never stops.  *)
(***************************************************************************)
EXTENDS Report, Json, IOUtils

Tr == ndJsonDeserialize(IOEnv.REPORT_TRACE)
ToSet(s) == {s[i] : i \in 1..Len(s)}

Has(rec, k) == k \in DOMAIN rec

\* all ids below a node, as a sequence (duplicates kept)
RECURSIVE IdsOf(_)
SeqCat(ss) == LET RECURSIVE go(_, _)
                  go(i, acc) == IF i > Len(ss) THEN acc ELSE go(i + 1, acc \o ss[i])
              IN go(1, <<>>)
DomSeq(rec) == LET RECURSIVE go(_, _)
                   go(S, acc) == IF S = {} THEN acc ELSE LET k == CHOOSE x \in S : TRUE IN go(S \ {k}, Append(acc, k))
               IN go(DOMAIN rec, <<>>)
IdsOf(n) ==
  <<n.id>>
    \o SeqCat([i \in 1..Len(DomSeq(n.maps)) |-> IdsOf(n.maps[DomSeq(n.maps)[i]])])
    \o SeqCat([i \in 1..Len(DomSeq(n.arrays)) |->
                 SeqCat([j \in 1..Len(n.arrays[DomSeq(n.arrays)[i]]) |-> IdsOf(n.arrays[DomSeq(n.arrays)[i]][j])])])

Injective(s) == \A i, j \in 1..Len(s) : i # j => s[i] # s[j]

\* C12 fixes no spelling of ids, no order of results and no set of slots: a node is well formed by what it carries.
\* (The positional scheme of the current implementation is a design-level model in Report.tla / ReportIdCases.tla.)
RECURSIVE WF(_, _, _)
WF(n, inSub, ctx) ==
  /\ n.id # ""                                                  \* every typed node has an @id
  /\ \A s \in DOMAIN n.maps : WF(n.maps[s], inSub, ctx)
  /\ \A s \in DOMAIN n.arrays :
        \A i \in 1..Len(n.arrays[s]) : WF(n.arrays[s][i], inSub \/ s = "subResult", ctx)
  /\ CASE n.kind = "result" ->
            /\ Has(n.scalars, "focusNode") /\ n.scalars["focusNode"] \in ctx.graph
            /\ Has(n.scalars, "sourceShapeName")
            /\ IF inSub THEN n.scalars["sourceShapeName"] = "nested" ELSE n.scalars["sourceShapeName"] \in ctx.validations
            /\ Has(n.scalars, "resultMessage") /\ n.scalars["resultMessage"] # ""
            /\ Has(n.arrays, "trace") /\ Len(n.arrays["trace"]) >= 1
            /\ \A i \in 1..Len(n.arrays["trace"]) : n.arrays["trace"][i].kind = "trace"
       [] n.kind = "trace" ->
            /\ Has(n.scalars, "component") /\ n.scalars["component"] # ""
            /\ Has(n.scalars, "resultPath") /\ n.scalars["resultPath"] # ""
       [] n.kind = "traceValue" ->
            Has(n.arrays, "subResult") => \A i \in 1..Len(n.arrays["subResult"]) : n.arrays["subResult"][i].kind = "result"
       [] OTHER -> TRUE

ReportOK(line) ==
  LET r == line.report
      ctx == [graph |-> ToSet(line.graphIds), validations |-> ToSet(line.validations)]
      results == IF Has(r.arrays, "result") THEN r.arrays["result"] ELSE <<>>
      allIds == line.instanceIds \o IdsOf(r)
  IN /\ line.valid = ""                     \* a JSON document holding one dialect instance that encodes one node
     /\ r.kind = "report" /\ r.id # ""
     /\ \A i \in 1..Len(results) : results[i].kind = "result"
     /\ WF(r, FALSE, ctx)
     /\ Injective(allIds)

VARIABLE l
TInit == l = 1 /\ TLCSet(3, {})
TNext ==
  /\ l <= Len(Tr)
  /\ TLCSet(3, TLCGet(3) \cup (IF ReportOK(Tr[l]) THEN {} ELSE {Tr[l].id}))
  /\ l' = l + 1
TSpec == TInit /\ [][TNext]_l
Summary == PrintT("REJECTED " \o ToJson(TLCGet(3))) /\ PrintT("LINES " \o ToString(Len(Tr)))
=============================================================================
