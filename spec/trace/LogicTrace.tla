----------------------------- MODULE LogicTrace -----------------------------
(***************************************************************************)
(* Validation of recorded (formula, world, reported set) observations of   *)
(* the real validator against the classical semantics Sat of Logic.tla.    *)
(* Trace line: [world: [targets, val, kids], items: [fid, ast, observed]]. *)
(* The step is deterministic, so the logged output is simply compared with *)
(* what the specification computes; ids that differ are collected in TLC   *)
(* register 3 and the walk goes on, so the whole trace is always checked.  *)
(***************************************************************************)
EXTENDS Logic, Json, IOUtils

Tr == ndJsonDeserialize(IOEnv.LOGIC_TRACE)
ToSet(s) == {s[i] : i \in 1..Len(s)}

WorldOf(w) ==
  [targets |-> ToSet(w.targets),
   val     |-> w.val,
   kids    |-> [n \in DOMAIN w.kids |-> [p \in DOMAIN w.kids[n] |-> ToSet(w.kids[n][p])]]]

VARIABLE l
TInit == l = 1 /\ TLCSet(3, {})
BadItems(line) ==
  LET W == WorldOf(line.world) IN
  {line.items[j].fid : j \in {j \in 1..Len(line.items) :
        ToSet(line.items[j].observed) # Reported(line.items[j].ast, W)}}
TNext ==
  /\ l <= Len(Tr)
  /\ TLCSet(3, TLCGet(3) \cup BadItems(Tr[l]))
  /\ l' = l + 1
TSpec == TInit /\ [][TNext]_l
Report == PrintT("REJECTED " \o ToJson(TLCGet(3))) /\ PrintT("LINES " \o ToString(Len(Tr)))
=============================================================================
