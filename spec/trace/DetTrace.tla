------------------------------ MODULE DetTrace ------------------------------
(***************************************************************************)
(* Validation of recorded (input, kind, output hash) observations: the     *)
(* output is a function of the input.  What the function's value is, is    *)
(* not logged: the first observation of an (input, kind) binds it and      *)
(* every later one -- repeated call, other goroutine, fresh process --     *)
(* must agree.  Keys with conflicting observations are collected in TLC    *)
(* register 3.                                                             *)
(***************************************************************************)
EXTENDS Naturals, Sequences, FiniteSets, TLC, Json, IOUtils
Tr == ndJsonDeserialize(IOEnv.DET_TRACE)
VARIABLES l, out
TInit == l = 1 /\ out = [k \in {} |-> ""] /\ TLCSet(3, {})
TNext ==
  /\ l <= Len(Tr)
  /\ LET k == Tr[l].key IN
       IF k \in DOMAIN out
         THEN /\ TLCSet(3, TLCGet(3) \cup (IF out[k] = Tr[l].sha THEN {} ELSE {k}))
              /\ UNCHANGED out
         ELSE /\ out' = [x \in DOMAIN out \cup {k} |-> IF x = k THEN Tr[l].sha ELSE out[x]]
  /\ l' = l + 1
TSpec == TInit /\ [][TNext]_<<l, out>>
Summary == PrintT("REJECTED " \o ToJson(TLCGet(3))) /\ PrintT("LINES " \o ToString(Len(Tr)))
=============================================================================
