----------------------------- MODULE ACVTrace -----------------------------
(***************************************************************************)
(* Trace validation of real executions against ACV.  The trace is an       *)
(* ndjson file (env ACV_TRACE) holding many cases one after another; each  *)
(* case is: call, ev*, ret, (call, ev*, ret)?, end.  A case is accepted    *)
(* iff its lines can be consumed by ACV's own actions.  FailMid and Close  *)
(* are silent (not logged); classes the harness does not know ("unknown")  *)
(* are left to TLC to infer.  Each accepted case id is recorded in TLC     *)
(* register 2, TraceGiveUp lets the search go on after a rejected case so  *)
(* that the rest of the trace is still checked.  Needs -workers 1.         *)
(***************************************************************************)
EXTENDS ACV, Json, IOUtils

Tr == ndJsonDeserialize(IOEnv.ACV_TRACE)

VARIABLES l,    \* position in the trace
          rep   \* unlogged: the report each (profile, doc) key denotes, bound by its first observation
NoRep == [k \in {} |-> ""]

P == "p1"
C == "c1"

\* Go's events.EventType numbering -> <<stage index, kind>>
EvOfType(t) ==
  LET st == CASE t \in {0, 1} -> 1 [] t \in {6, 7} -> 2 [] t \in {8, 9} -> 3
              [] t \in {2, 3} -> 4 [] t \in {4, 5} -> 5 [] t \in {10, 11} -> 6
              [] t \in {12, 13} -> 7
  IN Ev(st, IF t % 2 = 0 THEN "Start" ELSE "Done")

\* handles the harness compiled beforehand (not traced): one per profile that compiles, with distinct ids
RECURSIVE NumberHandles(_)
NumberHandles(S) == IF S = {} THEN {}
                    ELSE LET x == CHOOSE y \in S : TRUE
                         IN {[prof |-> x, id |-> 100 + Cardinality(S), dirty |-> "clean"]} \cup NumberHandles(S \ {x})
BaseHandles == NumberHandles({q \in Profiles : PFail(q) = 0})

ResetState ==
  /\ pc' = [p \in Procs |-> "idle"]
  /\ stage' = [p \in Procs |-> 0]
  /\ call' = [p \in Procs |-> NoCall]
  /\ ncalls' = [p \in Procs |-> 0]
  /\ ev' = [c \in Chans |-> <<>>]
  /\ closes' = [c \in Chans |-> 0]
  /\ owner' = [c \in Chans |-> "free"]
  /\ handles' = BaseHandles
  /\ gen' = 0
  /\ tmp' = [p \in Procs |-> 0]
  /\ names' = [p \in Procs |-> <<>>]
  /\ ret' = [p \in Procs |-> NoRet]
  /\ rep' = NoRep

TraceInit ==

  /\ pc = [p \in Procs |-> "idle"]
  /\ stage = [p \in Procs |-> 0]
  /\ call = [p \in Procs |-> NoCall]
  /\ ncalls = [p \in Procs |-> 0]
  /\ ev = [c \in Chans |-> <<>>]
  /\ closes = [c \in Chans |-> 0]
  /\ owner = [c \in Chans |-> "free"]
  /\ handles = BaseHandles
  /\ gen = 0
  /\ tmp = [p \in Procs |-> 0]
  /\ names = [p \in Procs |-> <<>>]
  /\ ret = [p \in Procs |-> NoRet]
  /\ l = 1
  /\ rep = NoRep
  /\ TLCSet(2, {})

IsEvent(e) == l <= Len(Tr) /\ Tr[l].e = e /\ l' = l + 1
KeepRep == UNCHANGED rep

ClassMatches(logged, actual) == logged = "unknown" \/ logged = actual

TraceCall ==
  /\ IsEvent("call")
  /\ LET t == Tr[l] IN
     \E prof \in Profiles, d \in Docs :
       /\ ClassMatches(t.pclass, PClass[prof])
       /\ ClassMatches(t.dclass, DClass[d])
       \* handles of one profile are interchangeable in the design: the trace does not say which one was used
       /\ LET hs == {hd \in handles : hd.prof = prof}
              h  == IF t.entry # "validateCompiled" THEN 0
                    ELSE IF hs = {} THEN 0 - 1 ELSE (CHOOSE hd \in hs : TRUE).id
          IN /\ h # 0 - 1
             /\ DoCall(P, t.entry, prof, d, IF t.hasChan THEN C ELSE NoChan, "default", h)
  /\ KeepRep

\* one received event = one Start or Done step of the spec, and it must be
\* the event the spec emits at that step
TraceEv ==
  /\ IsEvent("ev")
  /\ call[P].chan = C
  /\ \/ StartStage(P) \/ FinishStage(P) \/ FailAtDone(P)
  /\ ev'[C] = Append(ev[C], EvOfType(Tr[l].t))
  /\ KeepRep

\* without a channel the stage steps are not observable: they are silent
SilentStage ==
  /\ l <= Len(Tr) /\ Tr[l].e = "ret"
  /\ call[P].chan = NoChan
  /\ \/ StartStage(P) \/ FinishStage(P) \/ FailAtDone(P)
  /\ UNCHANGED <<l, rep>>

Silent ==
  /\ l <= Len(Tr) /\ Tr[l].e = "ret"
  /\ \/ FailMid(P) \/ Close(P)
  /\ UNCHANGED <<l, rep>>

TraceRet ==
  /\ IsEvent("ret")
  /\ LET t == Tr[l] IN
     /\ pc[P] = "returned"
     /\ ret[P].kind = t.kind
     /\ call[P].chan # NoChan => (closes[C] = 1) = t.closed
     /\ t.kind = "report" /\ call[P].doc \in DOMAIN DClass /\ DClass[call[P].doc] = "okNoNodes"
           => t.conforms = "true"
     \* C09 / C10: what a call returns (the report's hash, or the kind of failure) is a function of (profile, doc,
     \* configuration) only -- whichever entry point, handle, history and schedule produced it.  The first
     \* observation of a key (the fresh / solo reference) binds the value.
     /\ IF t.key # ""
          THEN IF t.key \in DOMAIN rep
                 THEN rep[t.key] = t.sha /\ UNCHANGED rep
                 ELSE rep' = [k \in DOMAIN rep \cup {t.key} |-> IF k = t.key THEN t.sha ELSE rep[k]]
          ELSE UNCHANGED rep
  /\ Return(P)

\* C10: the identifiers the shared counter handed to ONE compilation (hook H3, attributed to the goroutine
\* that was compiling), in the order they were handed out.  They are explainable by the spec's atomic Genvar
\* action iff they are pairwise distinct (NamesDistinctPerCompilation): another compilation running at the
\* same time may take values in between, but can never make this one see the same value twice.
TraceGenvars ==
  /\ IsEvent("genvars")
  /\ pc[P] = "idle"
  /\ LET vals == Tr[l].vals IN
       \A i, j \in 1..Len(vals) : i # j => vals[i] # vals[j]
  /\ UNCHANGED <<vars, rep>>

TraceEnd ==
  /\ IsEvent("end")
  /\ pc[P] = "idle"
  /\ LET t == Tr[l] IN
       t.hasMs => /\ (t.ms = MilestoneOps(ev[C]) \/ t.ms = MilestoneOpsAll(ev[C]))
                  /\ t.msok
  /\ TLCSet(2, TLCGet(2) \cup {Tr[l].id})
  /\ ResetState

\* abandon the current case (it stays out of register 2) and go on
TraceGiveUp ==
  /\ l <= Len(Tr)
  /\ l' = Tr[l].nx
  /\ ResetState

TraceNext == TraceCall \/ TraceEv \/ SilentStage \/ Silent \/ TraceRet \/ TraceGenvars \/ TraceEnd
               \/ TraceGiveUp

TraceSpec == TraceInit /\ [][TraceNext]_<<vars, l, rep>>

AllIds == {Tr[i].id : i \in {j \in 1..Len(Tr) : Tr[j].e = "end"}}

\* invariants of the design spec are evaluated on every state of every trace
TraceInvariants ==
  /\ WellBracketed /\ ClosedAtMostOnce /\ ClosedExactlyOnceAtReturn /\ EventsMatchOutcome
  /\ NoVerdictOnUnreadable /\ OutcomeIsReportOrError /\ NoNodesConforms

Report == PrintT("REJECTED " \o ToJson(AllIds \ TLCGet(2))) /\ PrintT("ACCEPTED " \o ToString(Cardinality(TLCGet(2))))
=============================================================================
