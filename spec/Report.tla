------------------------------- MODULE Report -------------------------------
(***************************************************************************)
(* The validation report (internal/validator/report.go, report_nodes.go    *)
(* and the report[...] / error() / trace() rules of the preamble).         *)
(*                                                                         *)
(* Part 1 (C03): from an abstract profile (which validation names are      *)
(* listed under which level, which are defined, which target nodes each    *)
(* defined validation fails on) and a report configuration, the header and *)
(* the result list the property prescribes.                                *)
(* Part 2 (C12): the shape grammar of result / trace / traceValue /        *)
(* location nodes and the positional @id scheme of defineIdRecursively.    *)
(***************************************************************************)
EXTENDS Naturals, Sequences, FiniteSets, TLC

Levels == <<"violation", "warning", "info">>
Severity(l) == CASE l = "violation" -> "Violation" [] l = "warning" -> "Warning" [] l = "info" -> "Info"

\* ---- Part 1 -------------------------------------------------------------
\* profile: [name, listed: [level -> SUBSET Names], defined: SUBSET Names, fails: [Names -> SUBSET Nodes]]
\* cfg:     [includeDate: BOOLEAN, clock: STRING, schema: "default" | "alt"]
LevelSet == {"violation", "warning", "info"}
\* one result per (level under which a DEFINED validation is listed, target node it fails on)
Results(p) ==
  LET nodes == UNION {p.fails[v] : v \in p.defined}
      hits  == {t \in LevelSet \X p.defined \X nodes : t[2] \in p.listed[t[1]] /\ t[3] \in p.fails[t[2]]}
  IN {[severity |-> Severity(t[1]), name |-> t[2], focus |-> t[3]] : t \in hits}

Conforms(p) == ~\E r \in Results(p) : r.severity = "Violation"

ReportOf(p, cfg) ==
  [conforms     |-> Conforms(p),
   hasResultKey |-> Results(p) # {},
   results      |-> Results(p),
   profileName  |-> p.name,
   hasDate      |-> cfg.includeDate,
   date         |-> IF cfg.includeDate THEN cfg.clock ELSE "none",
   schema       |-> cfg.schema]

\* design-level facts
ConformsIffNoViolation(p, cfg) ==
  ReportOf(p, cfg).conforms = (\A r \in ReportOf(p, cfg).results : r.severity # "Violation")
WarningsNeverBreakConformance(p, cfg) ==
  LET q == [p EXCEPT !.listed = [l \in DOMAIN p.listed |-> IF l = "violation" THEN p.listed[l] ELSE {}]]
  IN ReportOf(p, cfg).conforms = ReportOf(q, cfg).conforms
\* the report configuration changes nothing but its own fields
ConfigLocality(p, c1, c2) ==
  LET a == ReportOf(p, c1)
      b == ReportOf(p, c2)
  IN /\ a.conforms = b.conforms /\ a.results = b.results /\ a.hasResultKey = b.hasResultKey
     /\ a.profileName = b.profileName
     /\ (c1.includeDate = c2.includeDate /\ c1.clock = c2.clock) => a.date = b.date
     /\ c1.schema = c2.schema => a.schema = b.schema

\* ---- Part 2 -------------------------------------------------------------
\* Node kinds and the slots the constructors of the preamble give them.
\*   array slots hold a list of typed children, map slots a single typed child
ArraySlots(kind) == CASE kind = "result" -> {"trace"} [] kind = "traceValue" -> {"subResult"} [] OTHER -> {}
MapSlots(kind)   == CASE kind = "result" -> {"location"} [] kind = "trace" -> {"traceValue", "location"}
                      [] kind = "location" -> {"range"} [] kind = "range" -> {"start", "end"} [] OTHER -> {}
ChildKind(kind, slot) ==
  CASE slot = "trace" -> "trace" [] slot = "subResult" -> "result" [] slot = "traceValue" -> "traceValue"
    [] slot = "location" -> "location" [] slot = "range" -> "range" [] slot \in {"start", "end"} -> "position"

\* defineIdRecursively: a child in a map slot gets <parent>_<slot>, the i-th child (from 0) of an array
\* slot gets <parent>_<i> -- the slot name is NOT part of the id of array children
ChildId(parent, slot, isArray, index) ==
  IF isArray THEN parent \o "_" \o ToString(index) ELSE parent \o "_" \o slot
RootId(level, ordinal) == level \o "_" \o ToString(ordinal)

\* A uniform tree shape: at depth d every result has tr[d] traces, every traceValue sr[d] sub-results, and
\* nodes carry a location iff loc[d].  NodesOf enumerates <<id, kind>> for the whole tree.
RECURSIVE NodesUnder(_, _, _, _)
NodesUnder(id, kind, d, sh) ==
  LET me == {<<id, kind>>}
      maps == IF kind \in {"result", "trace"} /\ ~sh.loc[d] THEN MapSlots(kind) \ {"location"} ELSE MapSlots(kind)
      mapKids == UNION {NodesUnder(ChildId(id, s, FALSE, 0), ChildKind(kind, s), d, sh) : s \in maps}
      arrKids ==
        IF kind = "result"
          THEN UNION {NodesUnder(ChildId(id, "trace", TRUE, i), "trace", d, sh) : i \in 0..(sh.tr[d] - 1)}
        ELSE IF kind = "traceValue" /\ d < sh.depth
          THEN UNION {NodesUnder(ChildId(id, "subResult", TRUE, i), "result", d + 1, sh) : i \in 0..(sh.sr[d] - 1)}
        ELSE {}
  IN me \cup mapKids \cup arrKids

IdsUnique(nodes) == \A a, b \in nodes : a[1] = b[1] => a = b
\* negative control: a node kind with TWO array slots would break the scheme
CollidingIds == {ChildId("violation_0", "trace", TRUE, 0), ChildId("violation_0", "subResult", TRUE, 0)}
=============================================================================
