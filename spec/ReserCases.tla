----------------------------- MODULE ReserCases -----------------------------
(***************************************************************************)
(* C05: the surface-choice state machine.  From the canonical              *)
(* serialisation every rewrite action toggles one choice; TLC visits every *)
(* reachable choice record for each canonical graph, checks that the       *)
(* document still denotes the same graph (JsonLd!RoundTrip) and prints the *)
(* case together with the index the validator must derive from it.         *)
(***************************************************************************)
EXTENDS JsonLd, Json

G == INSTANCE Graph

N4 == {"n1", "n2", "n3", "n4"}
Graphs == <<
  [name |-> "diamond", nodes |-> N4, lits |-> {"l1", "l2"},
   edges |-> {<<"n1", "p", "n2">>, <<"n1", "p", "n3">>, <<"n2", "q", "n4">>, <<"n3", "q", "n4">>, <<"n4", "p", "l1">>,
              <<"n1", "q", "l1">>, <<"n2", "p", "l2">>, <<"n3", "r", "l2">>},
   types |-> [n \in N4 |-> IF n = "n4" THEN {"T", "C1"} ELSE {"T"}],
   parent |-> [n \in N4 |-> CASE n = "n2" -> "n1" [] n = "n3" -> "n1" [] n = "n4" -> "n2" [] OTHER -> "none"],
   embedPred |-> [n \in N4 |-> CASE n = "n4" -> "q" [] OTHER -> "p"]],
  [name |-> "cycle", nodes |-> {"n1", "n2", "n3"}, lits |-> {"l1"},
   edges |-> {<<"n1", "p", "n2">>, <<"n2", "p", "n1">>, <<"n2", "q", "n2">>, <<"n3", "p", "n1">>, <<"n3", "q", "l1">>,
              <<"n1", "r", "l1">>},
   types |-> [n \in {"n1", "n2", "n3"} |-> IF n = "n3" THEN {"T", "C2"} ELSE {"T"}],
   parent |-> [n \in {"n1", "n2", "n3"} |-> IF n = "n2" THEN "n1" ELSE "none"],
   embedPred |-> [n \in {"n1", "n2", "n3"} |-> "p"]],
  [name |-> "types", nodes |-> {"n1", "n2"}, lits |-> {"l1", "l2"},
   \* a predicate ("data") and a class ("security") whose local names are also names of built-in prefixes
   edges |-> {<<"n1", "p", "l1">>, <<"n1", "q", "n2">>, <<"n2", "p", "l2">>, <<"n2", "q", "l1">>, <<"n2", "r", "l1">>,
              <<"n2", "r", "l2">>, <<"n1", "data", "l2">>, <<"n2", "core", "n1">>},
   types |-> [n \in {"n1", "n2"} |-> IF n = "n1" THEN {"T", "C1", "security"} ELSE {"T", "doc"}],
   parent |-> [n \in {"n1", "n2"} |-> IF n = "n2" THEN "n1" ELSE "none"],
   embedPred |-> [n \in {"n1", "n2"} |-> "q"]],
  \* "types" again with ONE literal spelt with a blank inside: another graph, whose every serialisation equals the
  \* corresponding serialisation of "types" once all white space is removed (each is validated right after its twin)
  [name |-> "typesTwin", nodes |-> {"n1", "n2"}, lits |-> {"l 1", "l2"},
   edges |-> {<<"n1", "p", "l 1">>, <<"n1", "q", "n2">>, <<"n2", "p", "l2">>, <<"n2", "q", "l 1">>, <<"n2", "r", "l 1">>,
              <<"n2", "r", "l2">>, <<"n1", "data", "l2">>, <<"n2", "core", "n1">>},
   types |-> [n \in {"n1", "n2"} |-> IF n = "n1" THEN {"T", "C1", "security"} ELSE {"T", "doc"}],
   parent |-> [n \in {"n1", "n2"} |-> IF n = "n2" THEN "n1" ELSE "none"],
   embedPred |-> [n \in {"n1", "n2"} |-> "q"]] >>

VARIABLES c, gi
vars == <<c, gi>>
Init == c = Canonical /\ gi \in 1..Len(Graphs)

\* the rewrite actions: each changes how the document is written, never what it denotes
Toggle(f) == c' = [c EXCEPT ![f] = ~c[f]] /\ UNCHANGED gi
SetCtx(x) == c' = [c EXCEPT !.ctx = x] /\ UNCHANGED gi
SetWrapper(x) == c' = [c EXCEPT !.wrapper = x] /\ UNCHANGED gi
SetKw(x) == c' = [c EXCEPT !.kw = x] /\ UNCHANGED gi
Next == \/ \E f \in {"base", "embed", "order", "keyOrder", "arrays", "typeArr", "repeat", "litObj", "split"} : Toggle(f)
        \/ \E x \in {"none", "prefix", "vocab", "prefixRef"} : SetCtx(x)
        \/ \E x \in {"graph", "array"} : SetWrapper(x)
        \/ \E x \in {"plain", "alias", "escaped"} : SetKw(x)
Spec == Init /\ [][Next]_vars

SameDenotation == RoundTrip(Graphs[gi], c)
\* a rewrite never changes the index (stated on the transition)
IndexStable == [][G!IdsIndex(Denote(Serialise(Graphs[gi], c'))) = G!IdsIndex(Denote(Serialise(Graphs[gi], c)))]_vars

GraphJson(g) == [name |-> g.name, nodes |-> g.nodes, lits |-> g.lits, edges |-> g.edges, types |-> g.types,
                 parent |-> g.parent, embedPred |-> g.embedPred]
Emit == PrintT("CASE " \o ToJson([graph |-> Graphs[gi].name, choice |-> c,
                                  ids |-> G!IdsIndex(Graphs[gi]), types |-> G!TypesIndex(Graphs[gi])]))
ASSUME PrintT("GRAPHS " \o ToJson([i \in 1..Len(Graphs) |-> GraphJson(Graphs[i])]))
=============================================================================
