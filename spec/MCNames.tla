---- MODULE MCNames ----
EXTENDS Names
\* the table of the pinned tree: index 11 is "a", whose plural is the keyword `as`
ShippedTable == <<"x", "y", "z", "p", "q", "r", "s", "t", "u", "v", "w", "a", "b", "c", "d", "e", "f", "g", "h",
                  "i", "j", "k", "l", "m", "n", "o">>
DesignTable == <<"x", "y", "z", "p", "q", "r", "s", "t", "u", "v", "w", "b", "c", "d", "e", "f", "g", "h",
                 "i", "j", "k", "l", "m", "n", "o">>
====
