------------------------------ MODULE ACVSched ------------------------------
(***************************************************************************)
(* Schedule generator for C10: ACV with several procs plus a history       *)
(* variable recording, in the order TLC interleaved them, which proc       *)
(* started which call.  Run with -simulate; each finished behaviour is     *)
(* printed as one JSON line and replayed by `acvh concurrent`.             *)
(***************************************************************************)
EXTENDS ACV, Json
VARIABLE sched
SInit == Init /\ sched = <<>>
SNext ==
  /\ Next
  /\ LET started == {p \in Procs : ncalls'[p] # ncalls[p]} IN
       IF started = {} THEN UNCHANGED sched
       ELSE LET p == CHOOSE q \in started : TRUE IN
            sched' = Append(sched, [proc |-> p, entry |-> call'[p].entry, prof |-> call'[p].prof,
                                    doc |-> call'[p].doc, h |-> call'[p].h,
                                    overlaps |-> Cardinality({q \in Procs : q # p /\ pc[q] # "idle"})])
SSpec == SInit /\ [][SNext]_<<vars, sched>>
Finished == \A p \in Procs : pc[p] = "idle" /\ ncalls[p] = MaxCalls
EmitSched == Finished => PrintT("CASE " \o ToJson(sched))
=============================================================================
