------------------------------ MODULE MCACV ------------------------------
EXTENDS ACV
MCProfiles == {"pOk", "pParse", "pGen", "pRego", "pReport"}
MCDocs == {"dOk", "dNoNodes", "dNotJson", "dLd", "dEval"}
MCPClass == [p \in MCProfiles |->
   CASE p = "pOk" -> "ok" [] p = "pParse" -> "parseError"
     [] p = "pGen" -> "genError" [] p = "pRego" -> "regoError" [] p = "pReport" -> "reportError"]
MCDClass == [d \in MCDocs |->
   CASE d = "dOk" -> "ok" [] d = "dNoNodes" -> "okNoNodes" [] d = "dNotJson" -> "notJson"
     [] d = "dLd" -> "ldReject" [] d = "dEval" -> "evalError"]
MCGenvarsOf == [p \in MCProfiles |-> IF p \in {"pOk", "pRego"} THEN 2 ELSE 0]
\* concurrency model: fewer classes, more procs
CCProfiles == {"pOk", "pRego"}
CCDocs == {"dOk", "dNotJson"}
CCPClass == [p \in CCProfiles |-> MCPClass[p]]
CCDClass == [d \in CCDocs |-> MCDClass[d]]
CCGenvarsOf == [p \in CCProfiles |-> 2]
=============================================================================
