---------------------------- MODULE PathDenCases ----------------------------
(***************************************************************************)
(* Case generation for C02: property paths x graphs, with the denotation   *)
(* the property prescribes (Paths!Den) for every focus node, and the       *)
(* design-level theorem that the generator's unfolding into linear clauses *)
(* has the same denotation.                                                *)
(*   Mode "enum": every path of the scope on the canonical graphs          *)
(*   Mode "file": (path, graph) pairs from the ndjson file PATHDEN_IN      *)
(***************************************************************************)
EXTENDS Paths, Json, IOUtils

CONSTANTS Mode, Part, NParts

P(p, inv) == [k |-> "p", p |-> p, inv |-> inv]
Ty == [k |-> "type"]
Seq2(a, b) == [k |-> "and", xs |-> <<a, b>>]
Alt2(a, b) == [k |-> "or", xs |-> <<a, b>>]

Leaves == {P("p", FALSE), P("p", TRUE), P("q", FALSE), P("q", TRUE), Ty}
D1 == Leaves \cup {Seq2(a, b) : a \in Leaves, b \in Leaves} \cup {Alt2(a, b) : a \in Leaves, b \in Leaves}
EnumPaths ==
  D1 \cup {Seq2(a, b) : a \in D1, b \in D1} \cup {Alt2(a, b) : a \in D1, b \in D1}
     \cup {[k |-> "and", xs |-> <<a, b, c>>] : a \in Leaves, b \in Leaves, c \in Leaves}
     \cup {[k |-> "or", xs |-> <<a, b, c>>] : a \in Leaves, b \in Leaves, c \in Leaves}

\* canonical graphs: chain with literal tail, diamond (shared child), cycle + self loop, literal in
\* mid-path, parallel predicates, converse-rich, several classes
N == {"n1", "n2", "n3", "n4", "n5"}
Graphs == <<
  [name |-> "chain-diamond",
   nodes |-> N,
   edges |-> {<<"n1", "p", "n2">>, <<"n1", "p", "n3">>, <<"n2", "q", "n4">>, <<"n3", "q", "n4">>,
              <<"n4", "p", "l1">>, <<"n4", "q", "n5">>, <<"n5", "p", "l1">>, <<"n5", "p", "l2">>},
   types |-> [n \in N |-> IF n = "n4" THEN {"T", "C1"} ELSE {"T"}]],
  [name |-> "cycle",
   nodes |-> N,
   edges |-> {<<"n1", "p", "n2">>, <<"n2", "p", "n3">>, <<"n3", "p", "n1">>, <<"n2", "q", "n2">>,
              <<"n3", "q", "n4">>, <<"n4", "q", "n3">>, <<"n5", "p", "n5">>, <<"n5", "q", "n1">>},
   types |-> [n \in N |-> IF n \in {"n1", "n2"} THEN {"T", "C1"} ELSE IF n = "n3" THEN {"T", "C2"} ELSE {"T"}]],
  [name |-> "literal-midpath",
   nodes |-> N,
   edges |-> {<<"n1", "p", "l1">>, <<"n1", "p", "n2">>, <<"n2", "q", "l2">>, <<"n2", "q", "l1">>,
              <<"n2", "p", "n3">>, <<"n3", "p", "l1">>, <<"n3", "q", "n1">>, <<"n4", "p", "n2">>,
              <<"n4", "q", "n2">>, <<"n5", "q", "l2">>},
   types |-> [n \in N |-> IF n = "n5" THEN {"T", "C1", "C2"} ELSE {"T"}]],
  [name |-> "parallel-converse",
   nodes |-> N,
   edges |-> {<<"n1", "p", "n2">>, <<"n1", "q", "n2">>, <<"n2", "p", "n3">>, <<"n2", "q", "n3">>,
              <<"n3", "p", "n2">>, <<"n4", "p", "n1">>, <<"n5", "p", "n1">>, <<"n5", "q", "n4">>,
              <<"n3", "q", "l1">>, <<"n1", "q", "l1">>},
   types |-> [n \in N |-> {"T"}]] >>

FileCases == IF Mode = "file" THEN ndJsonDeserialize(IOEnv.PATHDEN_IN) ELSE <<>>
ToSet(s) == {s[i] : i \in 1..Len(s)}
GraphOf(g) == [name |-> g.name, nodes |-> ToSet(g.nodes),
               edges |-> {<<g.edges[i][1], g.edges[i][2], g.edges[i][3]>> : i \in 1..Len(g.edges)},
               types |-> [n \in ToSet(g.nodes) |-> ToSet(g.types[n])]]

LeafCode(a) == CASE a.k = "type" -> 5 [] a.k = "p" -> (IF a.p = "p" THEN 1 ELSE 2) + (IF a.inv THEN 2 ELSE 0)
RECURSIVE HashP(_)
HashP(a) == IF a.k \in {"p", "type"} THEN LeafCode(a)
            ELSE LET RECURSIVE go(_, _)
                     go(i, h) == IF i > Len(a.xs) THEN h ELSE go(i + 1, (h * 31 + HashP(a.xs[i])) % 1000003)
                 IN go(1, IF a.k = "and" THEN 7 ELSE 11)

Scope ==
  IF Mode = "enum"
    THEN {[path |-> a, g |-> Graphs[i], id |-> ""] : a \in {a \in EnumPaths : HashP(a) % NParts = Part}, i \in 1..Len(Graphs)}
    ELSE {[path |-> FileCases[i].path, g |-> GraphOf(FileCases[i].graph), id |-> FileCases[i].id] : i \in 1..Len(FileCases)}

VARIABLE c
Init == c \in Scope
Next == UNCHANGED c

Theorem == \A x \in c.g.nodes : UnfoldCorrect(c.path, x, c.g)
\* a union never loses or duplicates: the value set of a|b is the union of the value sets
AltIsUnion == c.path.k = "or" =>
  \A x \in c.g.nodes : Den(c.path, {x}, c.g) = UNION {Den(c.path.xs[i], {x}, c.g) : i \in 1..Len(c.path.xs)}

Emit == PrintT("CASE " \o ToJson([id |-> c.id, path |-> c.path, graph |-> c.g.name,
                                  den |-> [x \in c.g.nodes |-> Den(c.path, {x}, c.g)]]))
GraphsJson == [i \in 1..Len(Graphs) |-> [name |-> Graphs[i].name, nodes |-> Graphs[i].nodes,
                                         edges |-> Graphs[i].edges, types |-> Graphs[i].types]]
ASSUME Mode = "enum" => PrintT("GRAPHS " \o ToJson(GraphsJson))
=============================================================================
