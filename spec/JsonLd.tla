------------------------------- MODULE JsonLd -------------------------------
(***************************************************************************)
(* A small abstract model of JSON-LD surface syntax (C05): how one RDF     *)
(* graph can be written down in different ways, and what a document        *)
(* denotes.  Serialise(G, c) writes graph G under the surface-choice       *)
(* record c; Denote(doc) reads a document back.  The design-level theorem  *)
(* is Denote(Serialise(G, c)) = G for every c -- so every rewrite action   *)
(* (toggling one choice) preserves the denoted graph, and everything the   *)
(* validator derives from the graph (Graph!IdsIndex / TypesIndex, hence    *)
(* the verdict) must be invariant under it.                                *)
(*                                                                         *)
(* Choices:                                                                *)
(*   ctx      "none" | "prefix" (ex:p) | "vocab" (@vocab, bare terms) |    *)
(*            "prefixRef": the prefix context kept in a separate document, *)
(*            named by reference; that document is rewritten between uses  *)
(*            (other term names), so it must be read when it is used       *)
(*   base     ids absolute | relative to @base                             *)
(*   embed    children written inside their parent | listed flat           *)
(*   wrapper  {"@graph": [...]} | top-level array                          *)
(*   order    node order reversed or not;  keyOrder: the keys of every     *)
(*            object AND the values of every key in reverse order          *)
(*   arrays   a single value written alone | as a one-element array        *)
(*   typeArr  a single @type as string | as array                          *)
(*   repeat   a value written twice in its array                           *)
(*   litObj   a string literal as "x" | as {"@value": "x"}                 *)
(*   split    a node described by two objects with the same @id            *)
(*   kw       how keywords are written: "plain" (@type, @id), "alias"      *)
(*            (terms of the context that alias them: type, id -- only a    *)
(*            document with a context can do that), "escaped" (the key     *)
(*            text uses a JSON escape, "\u0040type": purely textual)       *)
(* (white space and indentation are purely textual and not modelled)       *)
(***************************************************************************)
EXTENDS Naturals, Sequences, FiniteSets, TLC

Choices == [ctx : {"none", "prefix", "vocab", "prefixRef"}, base : BOOLEAN, embed : BOOLEAN, wrapper : {"graph", "array"},
            order : BOOLEAN, keyOrder : BOOLEAN, arrays : BOOLEAN, typeArr : BOOLEAN, repeat : BOOLEAN,
            litObj : BOOLEAN, split : BOOLEAN, kw : {"plain", "alias", "escaped"}]
Canonical == [ctx |-> "none", base |-> FALSE, embed |-> FALSE, wrapper |-> "array", order |-> FALSE, keyOrder |-> FALSE,
              arrays |-> TRUE, typeArr |-> TRUE, repeat |-> FALSE, litObj |-> TRUE, split |-> FALSE, kw |-> "plain"]

\* G: [nodes, lits, edges, types, parent: [nodes -> nodes \cup {"none"}], embedPred: [nodes -> preds]]
\*    (parent: an acyclic embedding forest; parent[m] = n requires the edge <<n, embedPred[m], m>>)
SetToSeq(S) == LET RECURSIVE go(_, _)
                   go(T, acc) == IF T = {} THEN acc
                                 ELSE LET x == CHOOSE y \in T : TRUE IN go(T \ {x}, Append(acc, x))
               IN go(S, <<>>)
Rev(s) == [i \in 1..Len(s) |-> s[Len(s) + 1 - i]]

IdForm(n, c) == IF c.base THEN <<"rel", n>> ELSE <<"abs", n>>
KeyForm(p, c) == CASE c.ctx = "none" -> <<"full", p>> [] c.ctx \in {"prefix", "prefixRef"} -> <<"compact", p>>
                   [] c.ctx = "vocab" -> <<"term", p>>

RECURSIVE Obj(_, _, _, _)
\* the object written for node n; `part` selects which half of the properties goes into it (0 = all, 1, 2)
ValueForm(n, p, o, G, c) ==
  IF o \in G.lits THEN (IF c.litObj THEN <<"valobj", o>> ELSE <<"lit", o>>)
  ELSE IF c.embed /\ G.parent[o] = n /\ p = G.embedPred[o] THEN <<"embedded", Obj(o, 0, G, c)>>
  ELSE <<"ref", IdForm(o, c)>>

PropsOf(n, G) == SetToSeq({e[2] : e \in {e \in G.edges : e[1] = n}})
Obj(n, part, G, c) ==
  LET ps0 == PropsOf(n, G)
      ps1 == IF c.keyOrder THEN Rev(ps0) ELSE ps0
      half == (Len(ps1) + 1) \div 2
      ps  == CASE part = 0 -> ps1 [] part = 1 -> SubSeq(ps1, 1, half) [] part = 2 -> SubSeq(ps1, half + 1, Len(ps1))
      vals(p) == LET os == SetToSeq({e[3] : e \in {e \in G.edges : e[1] = n /\ e[2] = p}})
                     vs == [i \in 1..Len(os) |-> ValueForm(n, p, os[i], G, c)]
                     vq == IF c.keyOrder THEN Rev(vs) ELSE vs
                     vr == IF c.repeat THEN Append(vq, vq[1]) ELSE vq
                 IN IF Len(vr) = 1 /\ ~c.arrays THEN <<"single", vr[1]>> ELSE <<"array", vr>>
      ts == SetToSeq(G.types[n])
  IN [id |-> IdForm(n, c),
      kwKey |-> IF c.kw = "alias" /\ c.ctx # "none" THEN "alias" ELSE "at",
      types |-> IF part = 2 THEN <<"absent">>
                ELSE IF Len(ts) = 1 /\ ~c.typeArr THEN <<"single", KeyForm(ts[1], c)>>
                ELSE <<"array", [i \in 1..Len(ts) |-> KeyForm(ts[i], c)]>>,
      props |-> [i \in 1..Len(ps) |-> [key |-> KeyForm(ps[i], c), vals |-> vals(ps[i])]]]

TopNodes(G, c) == {n \in G.nodes : ~(c.embed /\ G.parent[n] # "none")}
Serialise(G, c) ==
  LET ns0 == SetToSeq(TopNodes(G, c))
      ns  == IF c.order THEN Rev(ns0) ELSE ns0
      objs == IF c.split
                THEN [i \in 1..(2 * Len(ns)) |-> Obj(ns[((i - 1) % Len(ns)) + 1], IF i <= Len(ns) THEN 1 ELSE 2, G, c)]
                ELSE [i \in 1..Len(ns) |-> Obj(ns[i], 0, G, c)]
  IN [ctx |-> c.ctx, base |-> c.base, wrapper |-> c.wrapper, top |-> objs]

\* ---- reading a document back ---------------------------------------------
ExpandId(f, doc) == IF f[1] = "rel" THEN (IF doc.base THEN f[2] ELSE <<"unresolved", f[2]>>) ELSE f[2]
ExpandKey(f, doc) == CASE f[1] = "full" -> f[2]
                       [] f[1] = "compact" -> IF doc.ctx \in {"prefix", "prefixRef"} THEN f[2] ELSE <<"unresolved", f[2]>>
                       [] f[1] = "term" -> IF doc.ctx = "vocab" THEN f[2] ELSE <<"dropped", f[2]>>

RECURSIVE ObjsIn(_)
ValuesOf(v) == IF v[1] = "single" THEN <<v[2]>> ELSE v[2]
ObjsIn(o) ==
  {o} \cup UNION {UNION {IF ValuesOf(o.props[i].vals)[j][1] = "embedded" THEN ObjsIn(ValuesOf(o.props[i].vals)[j][2]) ELSE {}
                           : j \in 1..Len(ValuesOf(o.props[i].vals))} : i \in 1..Len(o.props)}
AllObjs(doc) == UNION {ObjsIn(doc.top[i]) : i \in 1..Len(doc.top)}

Target(v, doc) == CASE v[1] \in {"lit", "valobj"} -> v[2]
                    [] v[1] = "ref" -> ExpandId(v[2], doc)
                    [] v[1] = "embedded" -> ExpandId(v[2].id, doc)
\* an aliased keyword is only a keyword for a reader that has the context
TypesOfObj(o, doc) == CASE o.types[1] = "absent" \/ (o.kwKey = "alias" /\ doc.ctx = "none") -> {}
                        [] o.types[1] = "single" -> {ExpandKey(o.types[2], doc)}
                        [] o.types[1] = "array" -> {ExpandKey(o.types[2][i], doc) : i \in 1..Len(o.types[2])}
Denote(doc) ==
  LET objs == AllObjs(doc)
      ids == {ExpandId(o.id, doc) : o \in objs}
  IN [nodes |-> ids,
      edges |-> UNION {UNION {{<<ExpandId(o.id, doc), ExpandKey(o.props[i].key, doc), Target(ValuesOf(o.props[i].vals)[j], doc)>>
                                 : j \in 1..Len(ValuesOf(o.props[i].vals))} : i \in 1..Len(o.props)} : o \in objs},
      types |-> [n \in ids |-> UNION {TypesOfObj(o, doc) : o \in {x \in objs : ExpandId(x.id, doc) = n}}]]

SameGraph(D, G) == D.nodes = G.nodes /\ D.edges = G.edges /\ \A n \in G.nodes : D.types[n] = G.types[n]
RoundTrip(G, c) == SameGraph(Denote(Serialise(G, c)), G)
=============================================================================
