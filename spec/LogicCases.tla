----------------------------- MODULE LogicCases -----------------------------
(***************************************************************************)
(* Exhaustive small-scope enumeration for C01.  Every formula of the scope *)
(* is an initial state; on each TLC checks the design theorem of Logic.tla *)
(* (code-shaped failure-DNF <=> ~Sat) and the spelling invariants on the   *)
(* canonical world, and prints the formula with the set of nodes the       *)
(* property says must be reported -- one implementation test per state.    *)
(*                                                                         *)
(* Mode "prop":  formulas of depth <= Depth over NAtoms atoms; the world   *)
(*               holds one target node per truth assignment.               *)
(* Mode "quant": nested / atLeast / atMost (count 0..2) over every formula *)
(*               of depth <= 1, in 10 connective contexts; the world holds *)
(*               one target per (assignment, multiset of children with     *)
(*               multiplicity 0..2 per child assignment): 4 x 81 targets.  *)
(***************************************************************************)
EXTENDS Logic, Json

CONSTANTS NAtoms, Depth, Mode,
          QDepth,          \* depth of the formulas under a quantified constraint (quant mode)
          Part, NParts     \* the scope is split in NParts slices checked by parallel TLC runs

AtomsF == {Atom(i) : i \in 1..NAtoms}
Step(S) == S \cup {Not(x) : x \in S}
             \cup {And(<<x, y>>) : x \in S, y \in S}
             \cup {Or(<<x, y>>) : x \in S, y \in S}
             \cup {Ite(c, t) : c \in S, t \in S}
             \cup {Itee(c, t, e) : c \in S, t \in S, e \in S}
RECURSIVE FDepth(_)
FDepth(d) == IF d = 0 THEN AtomsF ELSE Step(FDepth(d - 1))

\* ---- worlds ----
Bit(n, i) == (n \div (2 ^ (i - 1))) % 2 = 1
ValOf(a) == [i \in 1..NAtoms |-> Bit(a, i)]
Assignments == 0..(2 ^ NAtoms - 1)

\* nodes are structured values (cheap to evaluate); NodeName gives the string used in the rendered graph
PropNodes == {<<"t", a>> : a \in Assignments}
PropWorld ==
  [targets |-> PropNodes,
   val     |-> [n \in PropNodes |-> ValOf(n[2])],
   kids    |-> [n \in PropNodes |-> [p \in {"child"} |-> {}]]]

\* quantified world: one target per (assignment a, child configuration c); c[ka] in 0..2 is the
\* number of children carrying assignment ka
\* (guarded: TLC evaluates constant definitions eagerly, and this set is huge for NAtoms = 3)
KidCfgs == IF Mode = "quant" THEN [Assignments -> 0..2] ELSE {}
Tops == {<<"t", a, c>> : a \in Assignments, c \in KidCfgs}
KidsOfT(t) == {k \in {<<"k", t[2], t[3], ka, copy>> : ka \in Assignments, copy \in 1..2} : k[5] <= t[3][k[4]]}
AllKids == UNION {KidsOfT(t) : t \in Tops}
QuantWorld ==
  [targets |-> Tops,
   val     |-> [n \in Tops \cup AllKids |-> IF n[1] = "t" THEN ValOf(n[2]) ELSE ValOf(n[4])],
   kids    |-> [n \in Tops \cup AllKids |-> [p \in {"child"} |-> IF n[1] = "t" THEN KidsOfT(n) ELSE {}]]]

CfgName(c) == LET RECURSIVE go(_)
                  go(a) == IF a > 2 ^ NAtoms - 1 THEN "" ELSE ToString(c[a]) \o go(a + 1)
              IN go(0)
NodeName(n) ==
  IF Len(n) = 2 THEN "t" \o ToString(n[2])
  ELSE IF n[1] = "t" THEN "t" \o ToString(n[2]) \o "_" \o CfgName(n[3])
  ELSE "k" \o ToString(n[2]) \o "_" \o CfgName(n[3]) \o "_" \o ToString(n[4]) \o "_" \o ToString(n[5])

Quants == {Q("nested", 0, "child", x) : x \in FDepth(QDepth)}
            \cup {Q(q, n, "child", x) : q \in {"atLeast", "atMost"}, n \in 0..2, x \in FDepth(QDepth)}
Ctx(g) == {g, Not(g), And(<<Atom(1), g>>), Or(<<Atom(1), g>>), Or(<<g, Not(Atom(2))>>),
           Ite(Atom(1), g), Ite(g, Atom(1)), Itee(Atom(1), g, Atom(2)), Itee(g, Atom(1), Atom(2)),
           Not(Itee(Atom(2), g, Atom(1)))}
QuantFormulas == IF Mode = "quant" THEN UNION {Ctx(g) : g \in Quants} ELSE {}

\* Mode "wide": conjunctions / disjunctions of four and five operands, each itself a two-operand
\* connective over literals -- the shapes whose failure-DNF is a cross product of several multi-branch operands
Lit(i, pos) == IF pos THEN Atom(i) ELSE Not(Atom(i))
WideOps(inner) == {[k |-> inner, xs |-> <<Lit(1, TRUE), Lit(2, TRUE)>>], [k |-> inner, xs |-> <<Lit(2, TRUE), Lit(3, TRUE)>>],
                   [k |-> inner, xs |-> <<Lit(1, FALSE), Lit(3, TRUE)>>], [k |-> inner, xs |-> <<Lit(1, TRUE), Lit(3, FALSE)>>],
                   [k |-> inner, xs |-> <<Lit(2, FALSE), Lit(3, FALSE)>>], Lit(2, TRUE)}
WideOf(outer, inner) ==
  {[k |-> outer, xs |-> <<a, b, c, d>>] : a \in WideOps(inner), b \in WideOps(inner), c \in WideOps(inner), d \in WideOps(inner)}
    \cup {[k |-> outer, xs |-> <<a, b, c, d, e>>] :
             a \in WideOps(inner), b \in {[k |-> inner, xs |-> <<Lit(1, TRUE), Lit(2, TRUE)>>]}, c \in WideOps(inner),
             d \in WideOps(inner), e \in {[k |-> inner, xs |-> <<Lit(2, FALSE), Lit(3, FALSE)>>], Lit(2, TRUE)}}
WideFormulas == IF Mode = "wide" THEN WideOf("or", "and") \cup WideOf("and", "or") \cup {Not(g) : g \in WideOf("or", "and")} ELSE {}

World == IF Mode = "quant" THEN QuantWorld ELSE PropWorld
\* a cheap structural hash, only used to slice the scope
KindCode(g) == CASE g.k = "atom" -> g.i [] g.k = "not" -> 3 [] g.k = "and" -> 5 [] g.k = "or" -> 7
                 [] g.k = "ite" -> 11 [] g.k = "itee" -> 13 [] g.k = "q" -> 17 + g.n
RECURSIVE Hash(_)
Hash(g) == CASE g.k = "atom" -> g.i
             [] g.k = "not" -> 3 + 2 * Hash(g.x)
             [] g.k \in {"and", "or"} -> KindCode(g) + 3 * Hash(g.xs[1]) + 5 * Hash(g.xs[2])
                                         + (IF Len(g.xs) > 2 THEN 7 * Hash(g.xs[3]) + 11 * Hash(g.xs[Len(g.xs)]) ELSE 0)
             [] g.k = "ite" -> 11 + 3 * Hash(g.c) + 7 * Hash(g.t)
             [] g.k = "itee" -> 13 + 3 * Hash(g.c) + 5 * Hash(g.t) + 11 * Hash(g.e)
             [] g.k = "q" -> KindCode(g) + 3 * Hash(g.x) + (IF g.q = "nested" THEN 1 ELSE IF g.q = "atLeast" THEN 2 ELSE 4)
FullScope == CASE Mode = "prop" -> FDepth(Depth) [] Mode = "wide" -> WideFormulas [] OTHER -> QuantFormulas
Scope == {g \in FullScope : Hash(g) % NParts = Part}

VARIABLE f
Init == f \in Scope
Next == UNCHANGED f

Theorem == Correct(f, World)
Spelling == SpellingInvariant(f, World)
Emit == PrintT("CASE " \o ToJson([ast |-> f, expect |-> {NodeName(n) : n \in Reported(f, World)}]))
\* the world, in the shape the harness renders: name -> [val, kids]
WorldJson ==
  LET ns == IF Mode = "quant" THEN Tops \cup AllKids ELSE PropNodes IN
  [targets |-> {NodeName(n) : n \in World.targets},
   nodes   |-> {[name |-> NodeName(n), val |-> World.val[n],
                 kids |-> {NodeName(m) : m \in World.kids[n]["child"]}] : n \in ns}]
ASSUME PrintT("WORLD " \o ToJson(WorldJson))
=============================================================================
