------------------------------- MODULE Paths -------------------------------
(***************************************************************************)
(* Property paths: the grammar (as a PEG recogniser over a small symbol    *)
(* alphabet, with end of input), the AST it assigns, and the denotation    *)
(* of a path on an RDF-like graph.                                         *)
(*                                                                         *)
(* Symbols (one per character class of third_party/propertyparser.peg):    *)
(*   "L"  one of [a-zA-Z0-9_-]      "."  dot        "/"  slash             *)
(*   "B"  backslash                 "|"  bar        "(" ")"                *)
(*   "^"  inverse modifier          "*"  transitive modifier               *)
(*   " "  white space               "T"  the literal @type                 *)
(*   ","  and "Q" (double quote): accepted as modifiers by the committed    *)
(*        character class ["^","*"] although not documented                *)
(*   "#"  any other character                                              *)
(*                                                                         *)
(* Two readings of the grammar are defined (DESIGN.md C16):                *)
(*   lit = TRUE   the committed .peg verbatim (+ end of input)             *)
(*   lit = FALSE  the documented language: modifiers ^ and * only; the     *)
(*                local part of an IRI may hold "/" only as the escape \/  *)
(* A string is a conformance test only where both readings agree.          *)
(***************************************************************************)
EXTENDS Naturals, Sequences, FiniteSets, TLC

\* ------------------------------------------------------------------------
\* Recogniser.  Results: [ok, pos, ast]; pos = index of the next unread symbol.
Fail == [ok |-> FALSE, pos |-> 0, ast |-> <<>>]
Ok(p, a) == [ok |-> TRUE, pos |-> p, ast |-> a]

At(s, i) == IF i <= Len(s) THEN s[i] ELSE "EOF"

RECURSIVE SkipWS(_, _)
SkipWS(s, i) == IF At(s, i) = " " THEN SkipWS(s, i + 1) ELSE i

RECURSIVE SkipNs(_, _)
SkipNs(s, i) == IF At(s, i) = "L" THEN SkipNs(s, i + 1) ELSE i

\* local part: [.\\/a-zA-Z0-9_-]+ (literal) ; letters, dots and the escape \/ (documented)
RECURSIVE SkipLocal(_, _, _)
SkipLocal(s, i, lit) ==
  IF At(s, i) \in {"L", "."} THEN SkipLocal(s, i + 1, lit)
  ELSE IF lit /\ At(s, i) \in {"/", "B"} THEN SkipLocal(s, i + 1, lit)
  ELSE IF ~lit /\ At(s, i) = "B" /\ At(s, i + 1) = "/" THEN SkipLocal(s, i + 2, lit)
  ELSE i

Mods(lit) == IF lit THEN {"^", "*", ",", "Q"} ELSE {"^", "*"}

\* Iri <- ns:[a-zA-Z0-9_-]+ "." prop:[...]+ _ mod?
Iri(s, i, lit) ==
  LET a == SkipNs(s, i) IN
  IF a = i \/ At(s, a) # "." THEN Fail
  ELSE LET b == SkipLocal(s, a + 1, lit) IN
       IF b = a + 1 THEN Fail
       ELSE LET c == SkipWS(s, b)
                m == At(s, c)
                hasMod == m \in Mods(lit)
            IN Ok(IF hasMod THEN c + 1 ELSE c,
                  [k |-> "prop", from |-> i, to |-> b - 1, inv |-> hasMod /\ m = "^", trans |-> hasMod /\ m = "*"])

RECURSIVE Expression(_, _, _)
RECURSIVE Term(_, _, _)

Factor(s, i, lit) ==
  IF At(s, i) = "("
    THEN LET e == Expression(s, SkipWS(s, i + 1), lit) IN
         IF ~e.ok THEN Fail
         ELSE LET j == SkipWS(s, e.pos) IN
              IF At(s, j) = ")" THEN Ok(j + 1, e.ast) ELSE Fail
  ELSE LET r == Iri(s, i, lit) IN
       IF r.ok THEN r
       ELSE IF At(s, i) = "T" THEN Ok(i + 1, [k |-> "type"]) ELSE Fail

\* rest of `Head (_ sep _ Elem)*` : greedy, an iteration that fails is undone as a whole
RECURSIVE TermTail(_, _, _, _)
TermTail(s, i, lit, acc) ==
  LET j == SkipWS(s, i) IN
  IF At(s, j) # "|" THEN [pos |-> i, xs |-> acc]
  ELSE LET f == Factor(s, SkipWS(s, j + 1), lit) IN
       IF ~f.ok THEN [pos |-> i, xs |-> acc]
       ELSE TermTail(s, f.pos, lit, Append(acc, f.ast))

Term(s, i, lit) ==
  LET h == Factor(s, i, lit) IN
  IF ~h.ok THEN Fail
  ELSE LET t == TermTail(s, h.pos, lit, <<h.ast>>) IN
       Ok(t.pos, IF Len(t.xs) = 1 THEN t.xs[1] ELSE [k |-> "or", xs |-> t.xs])

RECURSIVE ExprTail(_, _, _, _)
ExprTail(s, i, lit, acc) ==
  LET j == SkipWS(s, i) IN
  IF At(s, j) # "/" THEN [pos |-> i, xs |-> acc]
  ELSE LET f == Term(s, SkipWS(s, j + 1), lit) IN
       IF ~f.ok THEN [pos |-> i, xs |-> acc]
       ELSE ExprTail(s, f.pos, lit, Append(acc, f.ast))

Expression(s, i, lit) ==
  LET h == Term(s, i, lit) IN
  IF ~h.ok THEN Fail
  ELSE LET t == ExprTail(s, h.pos, lit, <<h.ast>>) IN
       Ok(t.pos, IF Len(t.xs) = 1 THEN t.xs[1] ELSE [k |-> "and", xs |-> t.xs])

\* the whole string must be a path: Expression, optional trailing white space, end of input
Recognise(s, lit) ==
  LET e == Expression(s, 1, lit) IN
  IF e.ok /\ SkipWS(s, e.pos) = Len(s) + 1 THEN [ok |-> TRUE, ast |-> e.ast] ELSE [ok |-> FALSE, ast |-> <<>>]

\* as shipped (negative control for C16): no end-of-input assertion
RecognisePrefix(s, lit) ==
  LET e == Expression(s, 1, lit) IN
  IF e.ok THEN [ok |-> TRUE, ast |-> e.ast] ELSE [ok |-> FALSE, ast |-> <<>>]

\* structure up to redundant parentheses: same-kind nesting flattened
RECURSIVE Norm(_)
NormList(kind, xs) ==
  LET RECURSIVE go(_, _)
      go(i, acc) == IF i > Len(xs) THEN acc
                    ELSE LET n == Norm(xs[i]) IN
                         go(i + 1, IF n.k = kind THEN acc \o n.xs ELSE Append(acc, n))
  IN go(1, <<>>)
Norm(a) == IF a.k \in {"and", "or"} THEN [k |-> a.k, xs |-> NormList(a.k, a.xs)] ELSE a

\* ------------------------------------------------------------------------
\* Denotation.  Path ASTs here carry predicate names:
\*   [k:"p", p, inv] | [k:"type"] | [k:"and", xs] | [k:"or", xs]
\* Graph G: [nodes, edges \subseteq nodes \X preds \X (nodes \cup lits), types: [nodes -> SUBSET classes]]
RECURSIVE Den(_, _, _)
Den(a, X, G) ==
  CASE a.k = "p" ->
         IF a.inv THEN {e[1] : e \in {e \in G.edges : e[2] = a.p /\ e[3] \in X /\ e[3] \in G.nodes}}
         ELSE {e[3] : e \in {e \in G.edges : e[2] = a.p /\ e[1] \in X}}
    [] a.k = "type" -> UNION {G.types[x] : x \in X \cap G.nodes}
    [] a.k = "and" ->
         LET RECURSIVE go(_, _)
             go(i, Y) == IF i > Len(a.xs) THEN Y ELSE go(i + 1, Den(a.xs[i], Y, G))
         IN go(1, X)
    [] a.k = "or" -> UNION {Den(a.xs[i], X, G) : i \in 1..Len(a.xs)}

\* what the generator does (internal/generator/path.go traverse*): the path is unfolded into
\* linear clauses, one per combination of alternatives; the rule is the union of the clauses
RECURSIVE Unfold(_)
Cross(A, B) == {x \o y : x \in A, y \in B}
Unfold(a) ==
  CASE a.k \in {"p", "type"} -> {<<a>>}
    [] a.k = "or" -> UNION {Unfold(a.xs[i]) : i \in 1..Len(a.xs)}
    [] a.k = "and" ->
         LET RECURSIVE go(_, _)
             go(i, acc) == IF i > Len(a.xs) THEN acc ELSE go(i + 1, Cross(acc, Unfold(a.xs[i])))
         IN go(1, {<<>>})
EvalClause(c, X, G) ==
  LET RECURSIVE go(_, _)
      go(i, Y) == IF i > Len(c) THEN Y ELSE go(i + 1, Den(c[i], Y, G))
  IN go(1, X)
UnfoldCorrect(a, x, G) == Den(a, {x}, G) = UNION {EvalClause(c, {x}, G) : c \in Unfold(a)}
=============================================================================
