------------------------------ MODULE ACVHist ------------------------------
(***************************************************************************)
(* History generator for C09: every finite sequence (up to MaxLen) of data *)
(* documents, drawn from a small alphabet of document kinds, run through   *)
(* one compiled profile.  One initial state per (profile, history).        *)
(***************************************************************************)
EXTENDS Naturals, Sequences, TLC, Json
CONSTANTS DocKinds, ProfKinds, MaxLen
VARIABLE h
Histories == UNION {[1..n -> DocKinds] : n \in 1..MaxLen}
HInit == h \in [prof : ProfKinds, steps : Histories]
HNext == UNCHANGED h
Emit == PrintT("CASE " \o ToJson(h))
=============================================================================
