----------------------------- MODULE ShapeCases -----------------------------
(***************************************************************************)
(* The shape space of well-formed declarative profiles (C07): which        *)
(* constraint sits at the leaf, on which path shape, below how many        *)
(* levels of nesting, next to how many sibling quantified constraints, in  *)
(* which connective context, in how many validations.  Two slices are      *)
(* enumerated completely (kind x path x context; siblings x depth x        *)
(* context x quantifier) and the rest of the product is sampled by a       *)
(* structural hash (Part of NParts).  The allocation invariants of         *)
(* Names.tla are evaluated for the number of variables each shape needs.   *)
(***************************************************************************)
EXTENDS Naturals, Sequences, FiniteSets, TLC, Json

CONSTANTS Part, NParts, VarTable

N == INSTANCE Names WITH n <- 0

Kinds == {"minCount", "maxCount", "exactCount", "minLength", "maxLength", "exactLength", "pattern", "in",
          "containsAll", "containsSome", "minInclusive", "maxInclusive", "minExclusive", "maxExclusive",
          "minInclusiveFloat", "maxExclusiveFloat", "datatype", "lessThanProperty", "lessThanOrEqualsToProperty",
          "equalsToProperty", "disjointWithProperty", "uniqueValues", "nested", "atLeast", "atMost"}
PathShapes == {"pred", "seq", "alt", "inverse", "altInSeq", "seqInAlt", "type", "altMixedInverse", "seq3", "altOfAlt",
               "underscore",
               \* alternatives of different direction after one / two sequence steps, in both orders
               "seqThenAltMixed", "seqThenAltMixedRev", "seq2ThenAltMixed", "seq2ThenAltMixedRev",
               \* a long path: 24 sequence steps
               "seq24"}
Contexts == {"plain", "not", "or", "and", "if", "then", "else", "notIfThenElse"}
Siblings == {1, 2, 3, 5, 8, 11, 12, 13, 20, 30, 70}
\* OPA compile time grows ~3.5x per nesting level (measured: depth 8 3 s, 9 11 s, 10 40 s): depth is capped at 8;
\* many variables in one validation are reached through siblings x depth instead
Depths == {1, 2, 3, 5, 7, 8}
Quantifiers == {"nested", "atLeast", "atMost"}
Validations == {1, 3, 20}

\* listing: how the first validation is listed in the level lists -- once; under two / three levels; twice in one level
Listings == {"once", "twoLevels", "threeLevels", "twiceInLevel"}
Shape(k, p, c, s, d, q, v) == [kind |-> k, path |-> p, ctx |-> c, siblings |-> s, depth |-> d, quant |-> q, validations |-> v,
                               listing |-> "once"]

SliceKindPath == {Shape(k, p, c, 1, 1, "nested", 1) : k \in Kinds, p \in PathShapes, c \in Contexts}
\* siblings x depth is bounded so that one validation stays below ~40 quantified variables
SDPairs == {<<1, d>> : d \in Depths} \cup {<<s, 1>> : s \in Siblings} \cup ({2, 3, 5} \X {2, 3, 5})
             \cup {<<2, 6>>, <<6, 2>>, <<4, 3>>, <<3, 4>>, <<13, 2>>, <<9, 3>>}
SliceQuant == {Shape("minCount", "pred", c, sd[1], sd[2], q, 1) : c \in {"plain", "not", "or", "if"}, sd \in SDPairs, q \in Quantifiers}
SliceValidations == {Shape(k, "seq", "plain", 2, 2, "nested", v) : k \in Kinds, v \in Validations}
SliceListing == {[Shape(k, "pred", c, 1, 1, "nested", v) EXCEPT !.listing = l] :
                   k \in {"minCount", "pattern", "nested", "atMost"}, c \in {"plain", "not"}, v \in {1, 3, 20},
                   l \in Listings \ {"once"}}

\* the sampled remainder of the full product
Sampled == {Shape(k, p, c, s, d, q, v) :
              k \in Kinds, p \in PathShapes, c \in Contexts, s \in {1, 3, 12}, d \in {1, 3}, q \in Quantifiers, v \in {1, 3}}
SampleHash(sh) == (Len(sh.kind) * 31 + Len(sh.path) * 17 + Len(sh.ctx) * 13 + sh.siblings * 7 + sh.depth * 5
                   + Len(sh.quant) * 3 + sh.validations) % NParts

Scope == SliceKindPath \cup SliceQuant \cup SliceValidations \cup SliceListing \cup {sh \in Sampled : SampleHash(sh) = Part}

\* number of quantified variables one validation of this shape allocates (target variable included)
VarsNeeded(sh) == 1 + sh.siblings * sh.depth + (IF sh.kind \in {"nested", "atLeast", "atMost"} THEN sh.siblings ELSE 0)

VARIABLE sh
Init == sh \in Scope
Next == UNCHANGED sh

\* design-level: the identifiers needed by the shape are legal and distinct
NamesOK ==
  \* beyond the letter table the names are X<i>, X<i>s: legal and distinct by construction
  LET need == IF VarsNeeded(sh) > 40 THEN 40 ELSE VarsNeeded(sh) IN
  /\ \A i \in 0..(need - 1) : N!NamesOf(i) \cap N!Reserved = {}
  /\ \A i, j \in 0..(need - 1) : i # j => N!NamesOf(i) \cap N!NamesOf(j) = {}

Emit == PrintT("CASE " \o ToJson(sh))
=============================================================================
