------------------------------ MODULE ACVBase ------------------------------
(***************************************************************************)
(* Static vocabulary of the ACV system model: input classes, the stage     *)
(* order, the event alphabet, which stage a class of input fails at.       *)
(***************************************************************************)
EXTENDS Naturals, Sequences, FiniteSets, TLC

CONSTANTS
  Profiles,     \* abstract profile texts
  Docs,         \* abstract data texts
  PClass,       \* [Profiles -> ProfileClasses]
  DClass        \* [Docs -> DocClasses]

\* "reportError": compiles and evaluates, but its custom Rego puts a non-result into a result set: report building fails
ProfileClasses == {"ok", "parseError", "genError", "regoError", "reportError"}
DocClasses     == {"ok", "okNoNodes", "notJson", "ldReject", "evalError"}
Unreadable     == {"notJson", "ldReject"}

Stages == <<"ProfileParsing", "RegoGeneration", "RegoCompilation",
            "InputDataParsing", "InputDataNormalization", "OpaValidation",
            "BuildReport">>
StageIdx == 1..7

Entries == {"validate", "compile", "validateCompiled"}
FirstStage(e) == IF e = "validateCompiled" THEN 4 ELSE 1
LastStage(e)  == IF e = "compile" THEN 3 ELSE 7
Validating(e) == e # "compile"

\* An event is <<stage index, "Start"|"Done">>
Ev(i, k) == <<i, k>>
FullSeq == [n \in 1..14 |-> Ev((n + 1) \div 2, IF n % 2 = 1 THEN "Start" ELSE "Done")]
TailSeq == SubSeq(FullSeq, 7, 14)

IsPrefix(s, t) == Len(s) <= Len(t) /\ \A i \in 1..Len(s) : s[i] = t[i]

\* Stage at which a (profile, doc) pair fails, 0 = none.  Which *half* of the
\* stage the failure is noticed in (before or after the Done event) is left
\* open: both are behaviours of a correct implementation.
PFail(p) == CASE PClass[p] = "parseError" -> 1
              [] PClass[p] = "genError"   -> 2
              [] PClass[p] = "regoError"  -> 3
              [] OTHER -> 0
DFail(d) == IF d \notin DOMAIN DClass THEN 0      \* "none": a stand-alone compile
            ELSE CASE DClass[d] = "notJson"   -> 4
                   [] DClass[d] = "ldReject"  -> 5
                   [] DClass[d] = "evalError" -> 6
                   [] OTHER -> 0
FailStage(p, d) == IF PFail(p) # 0 THEN PFail(p)
                   ELSE IF DFail(d) # 0 THEN DFail(d)
                   ELSE IF PClass[p] = "reportError" /\ d \in DOMAIN DClass THEN 7 ELSE 0

\* milestones derived from the events (pkg/milestones): one per completed
\* stage for which the package defines an Operation (all but RegoCompilation)
HasOperation(i) == i # 3
MilestoneOps(es) ==
  LET dones == SelectSeq(es, LAMBDA e : e[2] = "Done" /\ HasOperation(e[1]))
  IN [n \in 1..Len(dones) |-> Stages[dones[n][1]]]
\* the reading in which Rego compilation is a stage like the others (the property says "one per completed stage";
\* the package as pinned has no Operation for it): a run is accepted under either reading
MilestoneOpsAll(es) ==
  LET dones == SelectSeq(es, LAMBDA e : e[2] = "Done")
  IN [n \in 1..Len(dones) |-> Stages[dones[n][1]]]

\* what a call of entry e on (p, d) must return, and -- when nothing fails --
\* the exact event sequence it produces on a fresh channel
ExpectedKind(e, p, d) ==
  IF FailStage(p, IF e = "compile" THEN "none" ELSE d) \in FirstStage(e)..LastStage(e)
    THEN "error"
    ELSE IF e = "compile" THEN "handle" ELSE "report"
ExpectedEvents(e) == SubSeq(FullSeq, 2 * FirstStage(e) - 1, 2 * LastStage(e))
=============================================================================
