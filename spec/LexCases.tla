------------------------------ MODULE LexCases ------------------------------
(***************************************************************************)
(* Scenario enumeration for C14 on a fixed 4-node graph (targets t1, t2    *)
(* with children k1, k2): which kind of lexical entry each node has, which *)
(* file lists it, which numbers its range holds (magnitudes 0 .. 123456).  *)
(***************************************************************************)
EXTENDS Graph, Json
CONSTANTS Part, NParts

Nodes == <<"t1", "t2", "k1", "k2">>
NodeSet == {"t1", "t2", "k1", "k2"}
Modes == {"node", "propOnly", "none"}
Files == {"root", "add1", "add2"}
Ranges == << <<0, 0, 0, 0>>, <<1, 9, 10, 99>>, <<100, 123456, 0, 1>>, <<9, 10, 9, 11>>, <<99, 100, 100, 0>>,
             <<123456, 1, 123456, 99>>, <<10, 0, 99, 9>>, <<1, 1, 1, 1>>, <<0, 123456, 1, 0>>, <<12, 34, 56, 78>>,
             <<100, 10, 1, 0>>, <<7, 77, 777, 7777>>,
             \* magnitudes beyond 2^31, 2^53 and 2^63 (digit strings: TLC's integers are 32 bit; Location only copies them)
             <<"4294967296", "9007199254740993", "9223372036854775807", "9223372036854775808">>,
             <<"12345678901234567890", 0, "18446744073709551616", 1>> >>
Rot(r, k) == [i \in 1..4 |-> r[((i + k - 1) % 4) + 1]]

\* hasSource = FALSE: lexical entries but no BaseUnitSourceInformation node (no file is named for any node)
Scenarios == [modes : [NodeSet -> Modes], files : [NodeSet -> Files], base : 1..Len(Ranges), hasMaps : BOOLEAN, hasSource : BOOLEAN]
Idx(n) == CHOOSE i \in 1..4 : Nodes[i] = n
ModeCode(m) == CASE m = "node" -> 1 [] m = "propOnly" -> 2 [] m = "none" -> 3
FileCode(f) == CASE f = "root" -> 1 [] f = "add1" -> 2 [] f = "add2" -> 3
Hash(s) == (s.base + 13 * ModeCode(s.modes["t1"]) + 17 * ModeCode(s.modes["t2"]) + 19 * ModeCode(s.modes["k1"])
            + 23 * ModeCode(s.modes["k2"]) + 29 * FileCode(s.files["t1"]) + 31 * FileCode(s.files["t2"])
            + 37 * FileCode(s.files["k1"]) + 41 * FileCode(s.files["k2"]) + (IF s.hasMaps THEN 43 ELSE 0)
            + (IF s.hasSource THEN 0 ELSE 47)) % NParts

LexOf(s) == [n \in NodeSet |-> [mode |-> IF s.hasMaps THEN s.modes[n] ELSE "none", range |-> Rot(Ranges[s.base], Idx(n))]]
\* the file names are reproduced as recorded: blanks, brackets, an upper-case scheme are part of the name
SrcOf(s) == [root |-> "file:///root.raml",
             additional |-> [f \in {"file:///home/dev/API specs/[v2]/add1.raml", "FILE:///C:/Specs/Add2.RAML"} |->
                               {n \in NodeSet : s.files[n] = (IF f = "file:///home/dev/API specs/[v2]/add1.raml" THEN "add1" ELSE "add2")}]]

VARIABLE s
Init == s \in {x \in Scenarios : /\ Hash(x) = Part
                                  /\ (~x.hasMaps => x.base = 1 /\ x.hasSource /\ \A n \in NodeSet : x.modes[n] = "none" /\ x.files[n] = "root")
                                  /\ (~x.hasSource => \A n \in NodeSet : x.files[n] = "root")}
Next == UNCHANGED s

Facts == /\ WellFormedSource(SrcOf(s))
         /\ \A n \in NodeSet : HasLocation(n, LexOf(s)) => Location(n, LexOf(s), SrcOf(s)).uri \in
                                  {"file:///root.raml", "file:///home/dev/API specs/[v2]/add1.raml", "FILE:///C:/Specs/Add2.RAML"}
         /\ ~s.hasMaps => \A n \in NodeSet : ~HasLocation(n, LexOf(s))

Emit == PrintT("CASE " \o ToJson([lex |-> LexOf(s), src |-> SrcOf(s), hasMaps |-> s.hasMaps, hasSource |-> s.hasSource,
                                  expect |-> [n \in NodeSet |-> IF HasLocation(n, LexOf(s))
                                                                  THEN Location(n, LexOf(s), SrcOf(s))
                                                                  ELSE [uri |-> "none"]]]))
=============================================================================
