------------------------------ MODULE Sandbox ------------------------------
(***************************************************************************)
(* Capability gate of profile compilation (C08).  A profile splices        *)
(* embedded Rego into the one module that is compiled; a call to a         *)
(* built-in with a dangerous capability anywhere in that module must make  *)
(* compilation fail, and nothing may be evaluated after a failed           *)
(* compilation.                                                            *)
(*                                                                         *)
(* State machine:  idle -> composed -> (accepted | rejected) -> evaluated  *)
(* `effects` records the capabilities exercised by evaluation.             *)
(* DenyList is a CONSTANT: the design lists all five dangerous built-ins;  *)
(* the negative control uses the list of the pinned tree (which predates   *)
(* net.lookup_ip_addr) and TLC then reaches a state with a network effect. *)
(***************************************************************************)
EXTENDS Naturals, Sequences, FiniteSets, TLC, Json

CONSTANT DenyList

\* what a built-in can do beyond computing a value from its arguments
Capability(b) ==
  CASE b = "http.send"          -> {"network"}
    [] b = "net.lookup_ip_addr" -> {"network"}
    [] b = "opa.runtime"        -> {"host"}
    [] b = "rego.parse_module"  -> {"reenter"}
    [] b = "walk"               -> {"unbounded"}
    [] OTHER                    -> {}
Dangerous == {"http.send", "net.lookup_ip_addr", "opa.runtime", "rego.parse_module", "walk"}
Harmless  == {"count", "concat"}          \* controls: must be accepted wherever they are placed
Builtins  == Dangerous \cup Harmless

\* where the profile language lets Rego text in
Positions == {"validation.rego", "validation.regoModule", "validation.rego.code", "constraint.rego",
              "constraint.regoModule", "constraint.rego.code", "under.not", "and.operand", "or.operand", "under.nested",
              "atLeast.validation", "atMost.validation", "if", "then", "else", "extensions.called", "extensions.uncalled",
              "extensions.rule",
              \* the dangerous block is the SECOND of two embedded-Rego operands that differ in nothing but their code
              "and.secondRego", "or.secondRego", "not.or.secondRego", "constraint.regoAndModule"}
\* how the call is written
Syntaxes == {"statement", "assignment", "unification", "arrayComprehension", "setComprehension",
             "objectComprehension", "every", "argument", "negated", "ruleHeadValue", "withMock"}

\* rego_extensions are spliced before the preamble's `import future.keywords.every`, so `every` cannot be written
\* there; a call as the value of a rule head only exists where whole rules can be written (rego_extensions)
ExtensionPositions == {"extensions.called", "extensions.uncalled", "extensions.rule"}
\* "withMock": the call is written `harmless(args) with harmless as dangerous`; walk (a relation of arity 2)
\* has no type-compatible harmless stand-in, and neither has the control concat
Feasible(p, s) == /\ ~(s = "every" /\ p \in ExtensionPositions)
                  /\ (s = "ruleHeadValue" => p \in ExtensionPositions)
FeasibleFor(b, s) == ~(s = "withMock" /\ b \in {"walk", "concat"})

VARIABLES phase, mod, effects
vars == <<phase, mod, effects>>

Init == phase = "idle" /\ mod = [b |-> "none", pos |-> "none", syn |-> "none"] /\ effects = {}

Compose(b, p, s) ==
  /\ phase = "idle" /\ Feasible(p, s) /\ FeasibleFor(b, s)
  /\ mod' = [b |-> b, pos |-> p, syn |-> s]
  /\ phase' = "composed"
  /\ UNCHANGED effects

\* rego.UnsafeBuiltins on the single rego.New through which every profile is compiled:
\* the check is on the whole module, wherever the call sits and however it is written
Compile ==
  /\ phase = "composed"
  /\ phase' = IF mod.b \in DenyList THEN "rejected" ELSE "accepted"
  /\ UNCHANGED <<mod, effects>>

Evaluate ==
  /\ phase = "accepted"
  /\ effects' = effects \cup Capability(mod.b)
  /\ phase' = "evaluated"
  /\ UNCHANGED mod

Next == (\E b \in Builtins, p \in Positions, s \in Syntaxes : Compose(b, p, s)) \/ Compile \/ Evaluate
Spec == Init /\ [][Next]_vars

NoDangerousEffect == effects = {}
DangerousNeverAccepted == phase \in {"accepted", "evaluated"} => mod.b \notin Dangerous
NothingEvaluatedAfterReject == [][phase = "rejected" => phase' = "rejected"]_vars
HarmlessAccepted == (phase \in {"accepted", "rejected", "evaluated"} /\ mod.b \in Harmless) => phase # "rejected"

EmitCase == phase = "composed" =>
  PrintT("CASE " \o ToJson([b |-> mod.b, pos |-> mod.pos, syn |-> mod.syn,
                            expect |-> IF mod.b \in Dangerous THEN "rejected" ELSE "accepted"]))
=============================================================================
