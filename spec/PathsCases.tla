----------------------------- MODULE PathsCases -----------------------------
(***************************************************************************)
(* Case generation for C16 (and the oracle for recorded parser runs):      *)
(*   Mode "strings": every symbol string of length <= MaxLen over Alphabet *)
(*   Mode "tokens" : every token string of length <= MaxLen over           *)
(*                   {P, Pi, T, /, |, (, ), sp, ^} where P expands to the  *)
(*                   predicate L.L and Pi to L.L^  -- sentences with up to *)
(*                   MaxLen leaves/operators in every spacing/parenthesis  *)
(*                   variant, and all their near misses                    *)
(*   Mode "file"   : the strings listed in the ndjson file PATHS_IN        *)
(* For each string both readings of the grammar are evaluated; one JSON    *)
(* line per string is printed.  Strings with leading or trailing white     *)
(* space are left out (undecided, see DESIGN.md).                          *)
(***************************************************************************)
EXTENDS Paths, Json, IOUtils

CONSTANTS Mode, MaxLen, Alphabet, Part, NParts

Strings(A, n) == UNION {[1..k -> A] : k \in 1..n}

Tokens == {"P", "Pi", "T", "/", "|", "(", ")", " ", "^"}
ExpandTok(t) == CASE t = "P" -> <<"L", ".", "L">> [] t = "Pi" -> <<"L", ".", "L", "^">> [] OTHER -> <<t>>
RECURSIVE ExpandAll(_)
ExpandAll(ts) == IF Len(ts) = 0 THEN <<>> ELSE ExpandTok(Head(ts)) \o ExpandAll(Tail(ts))

SymCode(c) == CASE c = "L" -> 1 [] c = "." -> 2 [] c = "/" -> 3 [] c = "|" -> 4 [] c = "(" -> 5 [] c = ")" -> 6
                [] c = "^" -> 7 [] c = " " -> 8 [] c = "T" -> 9 [] c = "P" -> 10 [] c = "Pi" -> 11 [] OTHER -> 12
RECURSIVE HashS(_)
HashS(s) == IF Len(s) = 0 THEN 7 ELSE (SymCode(Head(s)) + 31 * HashS(Tail(s))) % 1000003

FileStrings == IF Mode = "file" THEN ndJsonDeserialize(IOEnv.PATHS_IN) ELSE <<>>

Scope ==
  CASE Mode = "strings" -> {s \in Strings(Alphabet, MaxLen) : HashS(s) % NParts = Part}
    [] Mode = "tokens"  -> {ExpandAll(t) : t \in {t \in Strings(Tokens, MaxLen) : HashS(t) % NParts = Part}}
    [] Mode = "file"    -> {FileStrings[i].s : i \in 1..Len(FileStrings)}

Decided(s) == s[1] # " " /\ s[Len(s)] # " "

VARIABLE s
Init == s \in {x \in Scope : Decided(x)}
Next == UNCHANGED s

Lit == Recognise(s, TRUE)
Doc == Recognise(s, FALSE)
Agree == Lit.ok = Doc.ok /\ (Lit.ok => Norm(Lit.ast) = Norm(Doc.ast))

\* design-level facts checked on every string of the scope
RecogniserFacts ==
  /\ Lit.ok => RecognisePrefix(s, TRUE).ok                   \* EOF only ever removes sentences
  /\ Lit.ok => Norm(Norm(Lit.ast)) = Norm(Lit.ast)           \* Norm is idempotent
  /\ (Lit.ok /\ Lit.ast.k \in {"and", "or"}) => Len(Lit.ast.xs) >= 2

\* negative control: claims the end-of-input assertion never matters (TLC must refute it)
EofIrrelevant == Lit.ok = RecognisePrefix(s, TRUE).ok

Emit == PrintT("CASE " \o ToJson([s |-> s, ok |-> Lit.ok, agree |-> Agree,
                                  ast |-> IF Lit.ok THEN Norm(Lit.ast) ELSE [k |-> "none"],
                                  prefixOk |-> RecognisePrefix(s, TRUE).ok]))
=============================================================================
