-------------------------------- MODULE Cli --------------------------------
(***************************************************************************)
(* The command line tool (C18): `acv validate PROFILE DATA [OUT]` as a     *)
(* state machine over the output file.  Contents are abstract sequences    *)
(* of blocks; the report of input pair i is i+1 blocks of <<"rep", i>>.    *)
(* Between runs the environment may remove the file or overwrite it with   *)
(* other content of any length.  `hist` records the steps (replayed with   *)
(* the real binary).                                                       *)
(*                                                                         *)
(* The other subcommands (generate, normalize, compile, help), an unknown  *)
(* command and wrong argument counts are steps of the same histories: they *)
(* print their own output or fail, and none of them touches the output     *)
(* path.                                                                   *)
(*                                                                         *)
(* Truncate = TRUE is the design (the file ends up holding exactly the     *)
(* report); FALSE is the pinned tree (existing file opened without         *)
(* truncation: a longer previous content keeps its tail).                  *)
(***************************************************************************)
EXTENDS Naturals, Sequences, FiniteSets, TLC

CONSTANTS Truncate, MaxSteps

Pairs == 1..3                       \* (profile, data) pairs with reports of different length
Report(i) == [k \in 1..(i + 1) |-> <<"rep", i>>]
Junk(n) == [k \in 1..n |-> <<"junk", n>>]
Absent == << <<"ABSENT", 0>> >>
IsDir  == << <<"DIRECTORY", 0>> >>     \* the output path names a directory

VARIABLES file,     \* content of the output path, or Absent
          stdout,   \* what the last run printed
          exit,     \* exit status of the last run
          hist
vars == <<file, stdout, exit, hist>>

Init == file = Absent /\ stdout = <<>> /\ exit = 0 /\ hist = <<>>

Write(old, new) ==
  IF Truncate \/ old = Absent \/ Len(old) <= Len(new) THEN new
  ELSE new \o SubSeq(old, Len(new) + 1, Len(old))

RunToFile(i) ==
  /\ IF file = IsDir
       THEN file' = file /\ stdout' = <<>> /\ exit' = 1          \* cannot be written: a failure, nothing printed
       ELSE file' = Write(file, Report(i)) /\ stdout' = <<>> /\ exit' = 0
  /\ hist' = Append(hist, [op |-> "validateToFile", pair |-> i])
RunToStdout(i) ==
  /\ stdout' = Report(i) /\ exit' = 0 /\ UNCHANGED file
  /\ hist' = Append(hist, [op |-> "validateToStdout", pair |-> i])
\* unreadable data / broken profile: no report anywhere, non-zero exit, the file is left alone
RunFails(toFile) ==
  /\ stdout' = <<>> /\ exit' = 1 /\ UNCHANGED file
  /\ hist' = Append(hist, [op |-> IF toFile THEN "failToFile" ELSE "failToStdout", pair |-> 0])
Remove ==
  /\ file # Absent /\ file' = Absent /\ UNCHANGED <<stdout, exit>>
  /\ hist' = Append(hist, [op |-> "remove", pair |-> 0])
Overwrite(n) ==
  /\ file # IsDir
  /\ file' = Junk(n) /\ UNCHANGED <<stdout, exit>>
  /\ hist' = Append(hist, [op |-> "overwrite", pair |-> n])
\* the environment (or an earlier run that was killed) leaves other files next to the output path:
\* OUT.tmp, OUT~, OUT.bak, OUT.part, .OUT.swp ... -- they are not the output path and change nothing
Litter ==
  /\ UNCHANGED <<file, stdout, exit>>
  /\ hist' = Append(hist, [op |-> "litter", pair |-> 0])
MkDir ==
  /\ file = Absent /\ file' = IsDir /\ UNCHANGED <<stdout, exit>>
  /\ hist' = Append(hist, [op |-> "mkdir", pair |-> 0])

\* ---- the other subcommands and argument errors ------------------------------
\* what each prints: the policy / the normalised input of pair k, a fixed text, or nothing on failure
Others == {"generate", "normalize", "compile", "help",                       \* succeed
           "unknownCommand", "validateOneArg", "validateFourArgs", "generateNoArg", "generateTwoArgs",
           "normalizeTwoArgs", "compileNoArg", "missingProfile", "missingData", "generateBroken", "normalizeBroken",
           "compileBroken"}                                                 \* fail
OtherStdout(c, k) == CASE c = "generate"  -> << <<"policy", k>> >>
                       [] c = "normalize" -> << <<"normalized", k>> >>
                       [] c = "compile"   -> << <<"compileOk", 0>> >>
                       [] c = "help"      -> << <<"help", 0>> >>
                       [] OTHER           -> <<>>
OtherExit(c) == IF c \in {"generate", "normalize", "compile", "help"} THEN 0 ELSE 1
RunOther(c, k) ==
  /\ stdout' = OtherStdout(c, k) /\ exit' = OtherExit(c) /\ UNCHANGED file
  /\ hist' = Append(hist, [op |-> c, pair |-> k])

Next == /\ Len(hist) < MaxSteps
        /\ \/ \E i \in Pairs : RunToFile(i) \/ RunToStdout(i)
           \/ \E b \in BOOLEAN : RunFails(b)
           \/ Remove
           \/ \E n \in {0, 1, 6} : Overwrite(n)      \* empty, shorter than any report, longer than any report
           \/ Litter \/ MkDir
           \/ \E c \in Others : \E k \in (IF c \in {"generate", "normalize"} THEN Pairs ELSE {0}) : RunOther(c, k)
Spec == Init /\ [][Next]_vars

LastOp == IF Len(hist) = 0 THEN "none" ELSE hist[Len(hist)].op
\* after a run with an output path the file holds exactly that report, whatever it held before
FileIsExactlyTheReport ==
  LastOp = "validateToFile" => (file = Report(hist[Len(hist)].pair) /\ exit = 0) \/ (file = IsDir /\ exit # 0)
StdoutIsExactlyTheReport == LastOp = "validateToStdout" => stdout = Report(hist[Len(hist)].pair) /\ exit = 0
FailuresPrintNoReport == LastOp \in {"failToFile", "failToStdout"} => exit # 0 /\ stdout = <<>>
\* a report reaches stdout only from `validate` without an output path
ReportOnlyFromValidate ==
  LastOp \in Others \cup {"validateToFile", "failToFile", "failToStdout"} => \A j \in 1..Len(stdout) : stdout[j][1] # "rep"
OtherCommandsExit == LastOp \in Others => exit = OtherExit(LastOp) /\ (exit # 0 => stdout = <<>>)
\* only `validate PROFILE DATA OUT` (and the environment) ever changes the output path
OnlyValidateToFileWrites ==
  [][LET op == hist'[Len(hist')].op IN
       op \notin {"validateToFile", "remove", "overwrite", "mkdir"} => file' = file]_vars
=============================================================================
