------------------------------- MODULE Atoms -------------------------------
(***************************************************************************)
(* The atomic constraints of the profile language on properties with any   *)
(* number of values (C01: "over every documented atomic constraint").      *)
(* Logic.tla treats an atom as a proposition; this module says when the    *)
(* proposition holds for a node whose property p has the value set S and   *)
(* whose second property q has the value set T, as documented in           *)
(* docs/validation_tutorial/validation.md, sections 2 and 3:               *)
(*   per-value constraints (pattern, lengths, numeric ranges, in) hold iff *)
(*     EVERY value complies ("if the property has multiple values, all of  *)
(*     them will be validated"; `in`: the value set is a subset);          *)
(*   containsAll / containsSome compare the value set with the argument;   *)
(*   minCount / maxCount / exactCount count the values;                    *)
(*   lessThanProperty etc. relate every value of p to every value of q.    *)
(* Values are abstract magnitudes 1..4, rendered as the number v and as    *)
(* the string of v letters.                                                *)
(*                                                                         *)
(* Negated (the atom directly under `not`): for count constraints, and for *)
(* set constraints on a property that is present, the code's negated twin  *)
(* is the classical complement.  For per-value and *)
(* pairwise constraints it is NOT: `not: {pattern}` holds iff NO value     *)
(* matches (the SHACL-like reading).  The two coincide exactly when the    *)
(* property has one value (resp. one pair), which is where C01's           *)
(* propositional skeleton instantiates such atoms.  CodeNegSat transcribes *)
(* the negated twins of internal/generator/*.go; cells where it differs    *)
(* from the classical complement are reported as information, never as a   *)
(* violation (DESIGN.md, C01 "Excluded to stay sound").                    *)
(***************************************************************************)
EXTENDS Naturals, FiniteSets, Sequences, TLC

U == 1..4
Arg == {2, 3}                   \* the argument set of in / containsAll / containsSome

\* "...Halves": the property holds the numbers v + 0.5 and the argument is [2.5, 3.5]; "inIntsOnFractions": the property
\* holds v + 0.7 and the argument is [2, 3] ("values can be booleans, numeric values, or strings", section 2.6)
PerValue == {"minInclusive", "maxInclusive", "minExclusive", "maxExclusive", "minInclusiveFloat", "maxExclusiveFloat",
             "minLength", "maxLength", "exactLength", "pattern", "in", "inNumbers", "inHalves", "inIntsOnFractions",
             \* "...Fine": the property holds v + 0.00000005 and the argument has seven decimals (2.0000001, 3.0000001)
             "minInclusiveFine", "maxExclusiveFine",
             \* a regular expression that begins with a blank: " a{2,3}$" -- no value (v letters, no blank) matches it
             "patternLeadingBlank"}
SetKinds == {"containsAll", "containsSome", "containsAllHalves", "containsSomeHalves"}
CountKinds == {"minCount", "maxCount", "exactCount"}
PairKinds == {"lessThanProperty", "lessThanOrEqualsToProperty", "equalsToProperty", "disjointWithProperty"}
Kinds == PerValue \cup SetKinds \cup CountKinds \cup PairKinds

\* the parameter every kind is instantiated with is fixed (see lib/c01.py ATOM_SPECS)
Good(k, v) ==
  CASE k = "minInclusive" -> v >= 2  [] k = "maxInclusive" -> v <= 3
    [] k = "minExclusive" -> v > 1   [] k = "maxExclusive" -> v < 4
    [] k = "minInclusiveFloat" -> v >= 2 [] k = "maxExclusiveFloat" -> v < 4      \* arguments 1.5 and 3.5
    [] k = "minLength" -> v >= 2     [] k = "maxLength" -> v <= 3   [] k = "exactLength" -> v = 2
    [] k = "pattern" -> v \in Arg    [] k = "in" -> v \in Arg       [] k = "inNumbers" -> v \in Arg
    [] k = "inHalves" -> v \in Arg   [] k = "inIntsOnFractions" -> FALSE      \* no v + 0.7 is one of 2, 3
    [] k = "minInclusiveFine" -> v >= 3     \* 2.00000005 < 2.0000001 <= 3.00000005
    [] k = "maxExclusiveFine" -> v <= 3     \* 3.00000005 < 3.0000001 < 4.00000005
    [] k = "patternLeadingBlank" -> FALSE

PairOp(k, a, b) ==
  CASE k = "lessThanProperty" -> a < b [] k = "lessThanOrEqualsToProperty" -> a <= b
    [] k = "equalsToProperty" -> a = b [] k = "disjointWithProperty" -> a # b

\* the documented meaning
Sat(k, S, T) ==
  CASE k \in PerValue -> \A v \in S : Good(k, v)
    \* "validation applies if property was defined" (scalar_subset.go, scalar_intersect_set.go): a node without
    \* the property is not judged by containsAll / containsSome -- a deliberate choice of the implementation
    [] k \in {"containsAll", "containsAllHalves"} -> S = {} \/ Arg \subseteq S
    [] k \in {"containsSome", "containsSomeHalves"} -> S = {} \/ Arg \cap S # {}
    [] k = "minCount" -> Cardinality(S) >= 2
    [] k = "maxCount" -> Cardinality(S) <= 2
    [] k = "exactCount" -> Cardinality(S) = 2
    [] k \in PairKinds -> \A a \in S, b \in T : PairOp(k, a, b)

\* `equalsToProperty` is documented as "must have the same values": read as set equality it differs from the
\* pairwise reading when a side is empty or has several values; such cells are not judged
Unambiguous(k, S, T) == k = "equalsToProperty" => ((\A a \in S, b \in T : a = b) <=> S = T)

\* the negated twin as generated (one rule body: some value / pair for which the un-negated test HOLDS)
CodeNegSat(k, S, T) ==
  CASE k \in PerValue -> \A v \in S : ~Good(k, v)
    [] k \in PairKinds -> \A a \in S, b \in T : ~PairOp(k, a, b)
    [] k \in SetKinds -> S = {} \/ ~Sat(k, S, T)           \* not judged without the property either
    [] OTHER -> ~Sat(k, S, T)
NegIsClassical(k, S, T) == CodeNegSat(k, S, T) = ~Sat(k, S, T)

\* design facts
SingleValueNegationIsClassical ==
  \A k \in PerValue, v \in U : NegIsClassical(k, {v}, {})
SinglePairNegationIsClassical ==
  \A k \in PairKinds, a \in U, b \in U : NegIsClassical(k, {a}, {b})
CountAndSetNegationIsClassical ==
  /\ \A k \in CountKinds, S \in SUBSET U : NegIsClassical(k, S, {})
  /\ \A k \in SetKinds, S \in (SUBSET U) \ {{}} : NegIsClassical(k, S, {})
=============================================================================
