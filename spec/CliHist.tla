---- MODULE CliHist ----
(* history generator for C18: every history of exactly MaxSteps steps, printed once when complete *)
EXTENDS Cli, Json
EmitHist == Len(hist) = MaxSteps => PrintT("CASE " \o ToJson(hist))
====
