-------------------------------- MODULE Text --------------------------------
(***************************************************************************)
(* Profile text as data (C13): what the report must show for a profile     *)
(* name, validation name, message or list value, and what the chain        *)
(*   YAML scalar -> message parsing -> pasting into a Rego string literal  *)
(*   -> Rego unescaping -> sprintf (when the message has placeholders)     *)
(* makes of it.  Strings are sequences over an alphabet of character       *)
(* classes that matter to some stage of the chain:                         *)
(*   "dq" double quote   "sq" single quote   "bs" backslash   "pct" %      *)
(*   "lb" {   "rb" }   "nl" newline   "na" a non-ASCII character           *)
(*   "n" the letter n (\n is an escape)   "v" the letter v (%v is a verb)  *)
(*   "q" any other letter   "sp" space                                     *)
(*   "cc" a control character (BEL, ESC, VT, DEL ...)                      *)
(*   "ap" a non-printable code point outside the BMP (e.g. a tag character)*)
(*   "cm" a separator character (comma, semicolon): special to no stage,   *)
(*        but a list of values must not be joined and split on it          *)
(*   "P1", "P2" the placeholders {{ex.p1}}, {{ex.p2}} (messages only)      *)
(* Outcomes are either a string or "COMPILE-ERROR".                        *)
(*                                                                         *)
(* Shipped = TRUE transcribes the pinned tree: sanitizedMessage replaces   *)
(* only newline and double quote, names and list values are pasted raw.    *)
(* Shipped = FALSE is the design: every text is pasted as a properly       *)
(* escaped string literal and % is doubled when the message is a format.   *)
(***************************************************************************)
EXTENDS Naturals, Sequences, FiniteSets, TLC

CONSTANT Shipped

Placeholders == {"P1", "P2"}
Val(p) == IF p = "P1" THEN "V1" ELSE "V2"      \* the focus node's value for the placeholder's property ("N0" = null)

Map(s, f(_)) == [i \in 1..Len(s) |-> f(s[i])]
RECURSIVE Flat(_)
Flat(ss) == IF Len(ss) = 0 THEN <<>> ELSE Head(ss) \o Flat(Tail(ss))

HasPlaceholder(s) == \E i \in 1..Len(s) : s[i] \in Placeholders

\* ---- what the property prescribes ---------------------------------------
\* message: placeholders -> the node's value (or null), double quotes shown as single quotes, the rest as written
ExpectedMessage(s, present) ==
  Map(s, LAMBDA c : IF c \in Placeholders THEN (IF c \in present THEN Val(c) ELSE "N0")
                    ELSE IF c = "dq" THEN "sq" ELSE c)
\* names and list values: verbatim (a placeholder there is just text)
ExpectedVerbatim(s) == s

\* ---- the chain ------------------------------------------------------------
\* 1. pasting text between double quotes in the generated Rego
Escape(c) == CASE c = "bs" -> <<"bs", "bs">> [] c = "dq" -> <<"bs", "dq">> [] c = "nl" -> <<"bs", "n">> [] OTHER -> <<c>>
PasteDesign(s) == Flat(Map(s, Escape))
PasteShippedMessage(s) ==            \* sanitizedMessage: \n -> backslash n, " -> '
  Flat(Map(s, LAMBDA c : CASE c = "nl" -> <<"bs", "n">> [] c = "dq" -> <<"sq">> [] OTHER -> <<c>>))
PasteShippedRaw(s) == s              \* names and list values

\* 2. what the Rego parser reads back from the literal body (or fails)
RECURSIVE Unescape(_)
Unescape(s) ==
  IF Len(s) = 0 THEN <<>>
  ELSE IF s[1] = "dq" THEN <<"ERR">>                          \* an unescaped quote ends the literal early
  ELSE IF s[1] = "nl" THEN <<"ERR">>                          \* raw newline inside a "..." literal
  ELSE IF s[1] = "bs" THEN
         IF Len(s) = 1 THEN <<"ERR">>                         \* the backslash escapes the closing quote
         ELSE CASE s[2] = "bs" -> <<"bs">> \o Unescape(SubSeq(s, 3, Len(s)))
                [] s[2] = "dq" -> <<"dq">> \o Unescape(SubSeq(s, 3, Len(s)))
                [] s[2] = "n"  -> <<"nl">> \o Unescape(SubSeq(s, 3, Len(s)))
                [] OTHER       -> <<"ERR">>                   \* \q, \v, \{ ... : invalid escape
  ELSE <<s[1]>> \o Unescape(SubSeq(s, 2, Len(s)))
Failed(s) == \E i \in 1..Len(s) : s[i] = "ERR"

\* 3. sprintf over the unescaped format; "FMT" marks a %v produced from a placeholder
RECURSIVE Sprintf(_, _)
Sprintf(s, args) ==
  IF Len(s) = 0 THEN <<>>
  ELSE IF s[1] = "FMT" THEN <<Head(args)>> \o Sprintf(Tail(s), Tail(args))
  ELSE IF s[1] = "pct" THEN
         IF Len(s) >= 2 /\ s[2] = "pct" THEN <<"pct">> \o Sprintf(SubSeq(s, 3, Len(s)), args)
         ELSE <<"GARBLED">>                                   \* %q, %n, %v eating an argument, trailing % ...
  ELSE <<s[1]>> \o Sprintf(Tail(s), args)

MessageChain(s, present) ==
  LET isFormat == HasPlaceholder(s)
      args == [i \in 1..Len(SelectSeq(s, LAMBDA c : c \in Placeholders)) |->
                 LET p == SelectSeq(s, LAMBDA c : c \in Placeholders)[i] IN IF p \in present THEN Val(p) ELSE "N0"]
      \* ParseMessageExpression: placeholders become %v; the design doubles every other % when the text is a format
      fmt == Flat(Map(s, LAMBDA c : IF c \in Placeholders THEN <<"FMT">>
                                    ELSE IF c = "pct" /\ isFormat /\ ~Shipped THEN <<"pct", "pct">> ELSE <<c>>))
      pasted == IF Shipped THEN PasteShippedMessage(fmt)
                ELSE PasteDesign(Map(fmt, LAMBDA c : IF c = "dq" THEN "sq" ELSE c))
      read == Unescape(pasted)
  IN IF Failed(read) THEN <<"COMPILE-ERROR">>
     ELSE IF isFormat THEN Sprintf(read, args) ELSE read

VerbatimChain(s) ==
  LET read == Unescape(IF Shipped THEN PasteShippedRaw(s) ELSE PasteDesign(s))
  IN IF Failed(read) THEN <<"COMPILE-ERROR">> ELSE read

MessageCorrect(s, present) == MessageChain(s, present) = ExpectedMessage(s, present)
VerbatimCorrect(s) == VerbatimChain(s) = ExpectedVerbatim(s)
=============================================================================
