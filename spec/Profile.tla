------------------------------ MODULE Profile ------------------------------
(***************************************************************************)
(* A validation profile as it is written down (its YAML spelling) versus   *)
(* what it means (C15).  The spelling records everything a rewrite can     *)
(* change without changing the meaning: the order of the keys of every     *)
(* mapping, the order of the names in a level list and of and/or operands, *)
(* the names of the prefixes (declared, aliased or built in), scalar       *)
(* quoting, flow/block style, comments, blank lines and indentation.       *)
(* Abs(spelling) forgets the orders and styles and resolves every compact  *)
(* IRI through the prefix map.  Every rewrite action leaves Abs unchanged; *)
(* the walk of rewrites taken is recorded and replayed on real profiles.   *)
(***************************************************************************)
EXTENDS Naturals, Sequences, FiniteSets, TLC

CONSTANT MaxWalk,          \* length of the rewrite walks
         AllowBrokenRename \* negative control: a rename that forgets the declaration

\* a tiny but complete profile: two validations, one uses a declared prefix, one a built-in one
Namespaces == {"NSex", "NSshapes", "NScore"}
BuiltIn == [p \in {"shapes", "raml-shapes", "core"} |->
              CASE p = "shapes" -> "NSshapes" [] p = "raml-shapes" -> "NSshapes" [] p = "core" -> "NScore"]
\* use sites of compact IRIs: <<site, prefix, local>>
Sites == {"v1.class", "v1.path", "v1.msgvar", "v2.class", "v2.path", "v2.arg"}

VARIABLES
  decl,      \* [prefix name -> namespace] declared in the profile's `prefixes`
  use,       \* [Sites -> prefix name] prefix written at each use site
  orders,    \* [which sequence/mapping -> 0..3] the permutation in effect
  style,     \* [quote, flow, comments, blank, indent -> 0..2]
  walk       \* the rewrites applied so far (replayed on real profiles)
vars == <<decl, use, orders, style, walk>>

Local == [s \in Sites |-> CASE s = "v1.class" -> "T" [] s = "v1.path" -> "p" [] s = "v1.msgvar" -> "p"
                            [] s = "v2.class" -> "Shape" [] s = "v2.path" -> "name" [] s = "v2.arg" -> "q"]
Orderable == {"top", "validations", "validation", "propertyConstraints", "constraints", "prefixes", "levelList", "operands"}
Styles == {"quote", "flow", "comments", "blank", "indent"}

Init ==
  /\ decl = [p \in {"ex"} |-> "NSex"]
  /\ use = [s \in Sites |-> CASE s \in {"v1.class", "v1.path", "v1.msgvar", "v2.arg"} -> "ex"
                              [] s = "v2.class" -> "shapes" [] s = "v2.path" -> "core"]
  /\ orders = [o \in Orderable |-> 0]
  /\ style = [s \in Styles |-> 0]
  /\ walk = <<>>

\* resolution as IriExpanderFrom does it: built-in prefixes overlaid by the profile's own
Resolve(p) == IF p \in DOMAIN decl THEN decl[p] ELSE IF p \in DOMAIN BuiltIn THEN BuiltIn[p] ELSE "UNRESOLVED"
Abs == [iris |-> [s \in Sites |-> <<Resolve(use[s]), Local[s]>>]]     \* orders and styles carry no meaning
AbsInit == [iris |-> [s \in Sites |-> <<CASE s \in {"v1.class", "v1.path", "v1.msgvar", "v2.arg"} -> "NSex"
                                          [] s = "v2.class" -> "NSshapes" [] s = "v2.path" -> "NScore", Local[s]>>]]

Step(op, arg) == walk' = Append(walk, [op |-> op, arg |-> arg])

Permute(o) == \E k \in 1..3 :
  /\ orders' = [orders EXCEPT ![o] = k] /\ Step("permute:" \o o, k) /\ UNCHANGED <<decl, use, style>>
Restyle(s) == \E k \in 1..2 :
  /\ style' = [style EXCEPT ![s] = k] /\ Step("style:" \o s, k) /\ UNCHANGED <<decl, use, orders>>

FreshNames == {"zz", "my-ns"}
\* consistently rename a declared prefix: the declaration and every use
Rename == \E p \in DOMAIN decl, q \in FreshNames :
  /\ q \notin DOMAIN decl /\ q \notin DOMAIN BuiltIn
  /\ decl' = [x \in (DOMAIN decl \ {p}) \cup {q} |-> IF x = q THEN decl[p] ELSE decl[x]]
  /\ use' = [s \in Sites |-> IF use[s] = p THEN q ELSE use[s]]
  /\ Step("rename", IF q = "zz" THEN 1 ELSE 2) /\ UNCHANGED <<orders, style>>
\* declare another prefix bound to the same namespace and use it at some sites
Alias == \E p \in DOMAIN decl, q \in FreshNames, k \in 1..2 :
  /\ q \notin DOMAIN decl /\ q \notin DOMAIN BuiltIn
  /\ decl' = [x \in DOMAIN decl \cup {q} |-> IF x = q THEN decl[p] ELSE decl[x]]
  /\ use' = [s \in Sites |-> IF use[s] = p /\ (k = 1 \/ s \in {"v1.path", "v2.arg"}) THEN q ELSE use[s]]
  /\ Step("alias", k) /\ UNCHANGED <<orders, style>>
\* switch between two built-in prefixes of the same namespace (shapes / raml-shapes)
BuiltInAlias == \E s \in Sites :
  /\ use[s] \in DOMAIN BuiltIn /\ use[s] \notin DOMAIN decl
  /\ \E q \in DOMAIN BuiltIn : q # use[s] /\ BuiltIn[q] = BuiltIn[use[s]] /\ q \notin DOMAIN decl
                                /\ use' = [use EXCEPT ![s] = q]
  /\ Step("builtinAlias", 1) /\ UNCHANGED <<decl, orders, style>>
\* bind a fresh name to the namespace of a built-in prefix (apiExt included) and write it instead of the built-in one
FreshAliasOfBuiltIn == \E s \in Sites, q \in FreshNames :
  /\ use[s] \in DOMAIN BuiltIn /\ use[s] \notin DOMAIN decl /\ q \notin DOMAIN decl
  /\ decl' = [x \in DOMAIN decl \cup {q} |-> IF x = q THEN BuiltIn[use[s]] ELSE decl[x]]
  /\ use' = [t \in Sites |-> IF use[t] = use[s] THEN q ELSE use[t]]
  /\ Step("builtinAlias", 2) /\ UNCHANGED <<orders, style>>
\* re-declare a built-in prefix with the IRI it already has
Redeclare == \E p \in DOMAIN BuiltIn :
  /\ p \notin DOMAIN decl
  /\ decl' = [x \in DOMAIN decl \cup {p} |-> IF x = p THEN BuiltIn[p] ELSE decl[x]]
  /\ Step("redeclare", 1) /\ UNCHANGED <<use, orders, style>>
\* negative control only: renames the uses but forgets the declaration
BrokenRename == AllowBrokenRename /\ \E p \in DOMAIN decl :
  /\ use' = [s \in Sites |-> IF use[s] = p THEN "zz" ELSE use[s]]
  /\ Step("brokenRename", 1) /\ UNCHANGED <<decl, orders, style>>

Next == /\ Len(walk) < MaxWalk
        /\ \/ \E o \in Orderable : Permute(o)
           \/ \E s \in Styles : Restyle(s)
           \/ Rename \/ Alias \/ BuiltInAlias \/ FreshAliasOfBuiltIn \/ Redeclare \/ BrokenRename
Spec == Init /\ [][Next]_vars

MeaningPreserved == Abs = AbsInit
=============================================================================
