---- MODULE ProfileWalks ----
(* walk generator for C15: run with -simulate; each completed walk is printed as a JSON line *)
EXTENDS Profile, Json
EmitWalk == Len(walk) = MaxWalk => PrintT("CASE " \o ToJson(walk))
====
