------------------------------ MODULE TextCases ------------------------------
(***************************************************************************)
(* C13 case generation: every string of length <= MaxLen over the          *)
(* character-class alphabet (placeholders only in messages), with the text *)
(* the report must show.  The design chain must equal the expectation on   *)
(* every string (Shipped = FALSE); with Shipped = TRUE TLC refutes it.     *)
(***************************************************************************)
EXTENDS Text, Json
CONSTANTS MaxLen, Part, NParts

Plain == {"dq", "sq", "bs", "pct", "lb", "rb", "nl", "na", "n", "v", "q", "sp", "cc", "ap", "cm"}
Strings(A, n) == UNION {[1..k -> A] : k \in 1..n}
Code(c) == CASE c = "dq" -> 1 [] c = "sq" -> 2 [] c = "bs" -> 3 [] c = "pct" -> 4 [] c = "lb" -> 5 [] c = "rb" -> 6
             [] c = "nl" -> 7 [] c = "na" -> 8 [] c = "n" -> 9 [] c = "v" -> 10 [] c = "q" -> 11 [] c = "sp" -> 12
             [] c = "P1" -> 13 [] c = "P2" -> 14 [] c = "cc" -> 15 [] c = "ap" -> 16 [] c = "cm" -> 17
RECURSIVE HashS(_)
HashS(s) == IF Len(s) = 0 THEN 5 ELSE (Code(Head(s)) + 17 * HashS(Tail(s))) % 1000003

VARIABLES s, kind, present
Init == /\ kind \in {"message", "verbatim"}
        /\ s \in {x \in Strings(IF kind = "message" THEN Plain \cup Placeholders ELSE Plain, MaxLen) : HashS(x) % NParts = Part}
        /\ present \in (IF kind = "message" /\ HasPlaceholder(s) THEN SUBSET Placeholders ELSE {{}})
Next == UNCHANGED <<s, kind, present>>

Correct == IF kind = "message" THEN MessageCorrect(s, present) ELSE VerbatimCorrect(s)
Emit == PrintT("CASE " \o ToJson([kind |-> kind, s |-> s, present |-> present,
                                  expect |-> IF kind = "message" THEN ExpectedMessage(s, present) ELSE ExpectedVerbatim(s)]))
=============================================================================
