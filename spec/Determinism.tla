---------------------------- MODULE Determinism ----------------------------
(***************************************************************************)
(* Why the generated code (and through the order of results, the report)   *)
(* is a function of the profile text only (C06).                           *)
(*                                                                         *)
(* Parsing a mapping of property constraints visits its keys one by one;   *)
(* every nested / atLeast / atMost constraint met takes the next variable  *)
(* of the validation's generator, so the names in the generated code are a *)
(* function of the visit order.  In the design the keys are visited in     *)
(* document order.  DocumentOrder = FALSE models the pinned tree, where    *)
(* the keys come out of a Go map in random order: TLC then reaches two     *)
(* terminal states with different code for the same profile.               *)
(***************************************************************************)
EXTENDS Naturals, Sequences, FiniteSets, TLC

CONSTANTS NKeys,          \* keys of the mapping, in document order 1..NKeys
          Quantified,     \* which of them hold a quantified constraint
          DocumentOrder

VARIABLES visited,  \* sequence of keys in the order they were visited
          counter,  \* variables handed out so far
          varOf     \* key -> variable index it was given (0 = none)
vars == <<visited, counter, varOf>>

Init == visited = <<>> /\ counter = 0 /\ varOf = [k \in 1..NKeys |-> 0]

Unvisited == (1..NKeys) \ {visited[i] : i \in 1..Len(visited)}
Visit(k) ==
  /\ k \in Unvisited
  /\ DocumentOrder => \A j \in Unvisited : k <= j
  /\ visited' = Append(visited, k)
  /\ IF k \in Quantified
       THEN counter' = counter + 1 /\ varOf' = [varOf EXCEPT ![k] = counter + 1]
       ELSE UNCHANGED <<counter, varOf>>
Next == \E k \in 1..NKeys : Visit(k)
Spec == Init /\ [][Next]_vars

\* the generated code mentions, for every key, the variable it was given: it is determined by varOf
CodeOfDocumentOrder == [k \in 1..NKeys |-> IF k \in Quantified THEN Cardinality({j \in Quantified : j <= k}) ELSE 0]
Done == Unvisited = {}
SameCodeEveryRun == Done => varOf = CodeOfDocumentOrder
=============================================================================
