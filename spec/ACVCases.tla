------------------------------ MODULE ACVCases ------------------------------
(***************************************************************************)
(* Case generator: the complete product entry point x profile class x data *)
(* class x channel mode, each with the outcome the design prescribes.      *)
(* One initial state per case; each is printed as a JSON line.             *)
(***************************************************************************)
EXTENDS ACVBase, Json

HarnessEntries == {"validate", "validateCfg", "compile", "validateCompiled",
                   "validateCompiledCfg", "compileThenValidate"}
SpecEntry(h) == CASE h \in {"validate", "validateCfg"} -> "validate"
                  [] h = "compile" -> "compile"
                  [] h \in {"validateCompiled", "validateCompiledCfg"} -> "validateCompiled"
                  [] h = "compileThenValidate" -> "validate"
\* none: no channel; unbuf: unbuffered with an eager listener; buf: a buffer larger than any run, read afterwards;
\* bufSmall: a two-slot buffer with a lazy listener (the sender has to wait for it)
ChanModes == {"none", "unbuf", "buf", "bufSmall"}

VARIABLE c
CaseInit == c \in [entry : HarnessEntries, prof : Profiles, doc : Docs, chan : ChanModes]
CaseNext == UNCHANGED c

\* a precompiled handle only exists for profiles that compile
Feasible == c.entry \in {"validateCompiled", "validateCompiledCfg"} => PFail(c.prof) = 0

Emit ==
  Feasible =>
    PrintT("CASE " \o ToJson(
      [entry |-> c.entry, pclass |-> PClass[c.prof], dclass |-> DClass[c.doc], chan |-> c.chan,
       expectKind |-> ExpectedKind(SpecEntry(c.entry), c.prof, c.doc),
       failStage |-> FailStage(c.prof, IF c.entry = "compile" THEN "none" ELSE c.doc)]))
=============================================================================
