#!/usr/bin/env python3
"""Evaluate seeded changes against the checks.
  seeded.py confirm <dir>            apply <dir>/patch.diff in a scratch worktree, build, run the repository's test suite
  seeded.py eval <dir> <id> [tier]   apply the patch to /repo, run ./check <id>, undo the patch, print the outcome
Never leaves /repo modified."""
import json
import os
import subprocess
import sys

ENV = dict(os.environ, GOFLAGS="-mod=mod", GOPROXY="off", GOSUMDB="off", GOTOOLCHAIN="local")


def sh(cmd, cwd=None, timeout=3600):
    return subprocess.run(cmd, shell=True, cwd=cwd, env=ENV, capture_output=True, text=True, timeout=timeout)


def confirm(d):
    wt = "/tmp/mutcheck_" + os.path.basename(os.path.abspath(d))
    sh("rm -rf %s" % wt)
    r = sh("git clone -q --local /repo %s" % wt)
    if r.returncode:
        print(r.stderr)
        return 2
    try:
        r = sh("git apply %s" % os.path.join(os.path.abspath(d), "patch.diff"), cwd=wt)
        if r.returncode:
            print("PATCH DOES NOT APPLY", r.stderr)
            return 1
        r = sh("go build ./... && go test -vet=off -count=1 ./... 2>&1 | grep -v 'no test files'", cwd=wt)
        ok = "FAIL" not in r.stdout and r.returncode == 0 and "ok" in r.stdout
        print(os.path.basename(d), "TEST SUITE WITH PATCH:", "PASS" if ok else "FAIL\n" + r.stdout[-800:])
        if not ok:
            return 1
        # the demonstration: a Go test file copied into pkg/ (fails with the patch, passes without)
        demos = [f for f in os.listdir(d) if f.endswith("_test.go")]
        target = "pkg"
        for f in demos:
            src = open(os.path.join(d, f)).read()
            if "\npackage main" in "\n" + src:
                target = "cmd"
            dst = os.path.join(wt, target, "zz_" + os.path.basename(d).replace("-", "_") + "_" + f)
            open(dst, "w").write(src)
        if demos:
            r1 = sh("go test -vet=off -count=1 -timeout 300s ./%s/ 2>&1 | tail -5" % target, cwd=wt)
            with_patch_fails = "FAIL" in r1.stdout
            sh("git apply -R %s" % os.path.join(os.path.abspath(d), "patch.diff"), cwd=wt)
            r2 = sh("go test -vet=off -count=1 -timeout 300s ./%s/ 2>&1 | tail -5" % target, cwd=wt)
            without_passes = "FAIL" not in r2.stdout and "ok" in r2.stdout
            print(os.path.basename(d), "DEMO with patch fails:", with_patch_fails, "| without patch passes:", without_passes)
            if not (with_patch_fails and without_passes):
                print(r1.stdout[-600:], r2.stdout[-600:])
                return 1
        else:
            print(os.path.basename(d), "no Go test demo found; check manually")
        return 0
    finally:
        sh("rm -rf %s" % wt)


def evaluate(d, pid, tier="quick"):
    st = sh("git -C /repo status --porcelain")
    if st.stdout.strip():
        print("/repo is not clean:", st.stdout)
        return 2
    r = sh("git -C /repo apply %s" % os.path.join(os.path.abspath(d), "patch.diff"))
    if r.returncode:
        print("PATCH DOES NOT APPLY", r.stderr)
        return 2
    try:
        r = sh("./check %s --tier %s" % (pid, tier), cwd="/verif")
        lines = [l for l in r.stdout.splitlines() if l.startswith(("VIOLATION", "KNOWN-FINDING", "OK"))]
        keys = [l.strip() for l in r.stderr.splitlines() if l.strip().startswith("key=")]
        print("exit=%d" % r.returncode)
        for l in lines[:6]:
            print(" ", l)
        for k in keys[:6]:
            print("   ", k)
        if r.returncode == 2:
            print(r.stderr[-1500:])
        return r.returncode
    finally:
        sh("git -C /repo checkout -- . && git -C /repo clean -fdq -- internal pkg cmd")


if __name__ == "__main__":
    if sys.argv[1] == "confirm":
        sys.exit(confirm(sys.argv[2]))
    sys.exit(evaluate(sys.argv[2], sys.argv[3], *(sys.argv[4:5])))
