#!/usr/bin/env python3
"""Writes benign/INDEX.md from benign/*/README.md and benign/RESULTS.json."""
import json
import os
import re

os.chdir(os.path.join(os.path.dirname(os.path.dirname(os.path.abspath(__file__))), "benign"))
res = json.load(open("RESULTS.json"))
NOTE = {
    "C11": "reported by C11: the change alters the order / presence of progress events (C11's own subject); benign for the property it was written for",
}
TRIAGE = json.load(open("TRIAGE.json")) if os.path.exists("TRIAGE.json") else {}
out = ["# Property-preserving changes (false-alarm audit)", "",
       "Each directory holds a patch a sub-agent wrote to *change observable behaviour near one property without violating it*, and its",
       "own argument why the property still holds (`README.md`). `tools/benign.py` runs the quick checks against each patch on a scratch",
       "clone of /repo; `RESULTS.json` has the raw outcomes. `checks run` = the checks evaluated against the patch after the corrections of",
       "DESIGN.md 11.4 / 11.6; `alarms` lists the checks that reported a violation, with the triage.", "",
       "| patch | written for | what it changes | checks run | alarms |", "|---|---|---|---|---|"]
for d in sorted(x for x in os.listdir(".") if os.path.isdir(x)):
    text = open(os.path.join(d, "README.md"), errors="replace").read() if os.path.exists(os.path.join(d, "README.md")) else ""
    title = ""
    for line in text.splitlines():
        line = line.strip().lstrip("#").strip()
        if len(line) > 15:
            title = line
            break
    r = res.get(d, {})
    ran = sorted(k for k, v in r.items() if isinstance(v, dict) and "exit" in v)
    alarms = []
    for k in ran:
        if r[k]["exit"]:
            alarms.append("%s (exit %d): %s" % (k, r[k]["exit"], TRIAGE.get(d + "/" + k) or NOTE.get(k, "see DESIGN.md 11.6")))
    out.append("| %s | %s | %s | %s | %s |" % (d, d[:3], title.replace("|", "/")[:160], ("all 18" if len(ran) == 18 else ", ".join(ran)) or "-",
                                            "; ".join(alarms) or "none"))
open("INDEX.md", "w").write("\n".join(out) + "\n")
print(len(out) - 9)
