#!/usr/bin/env python3
"""Evaluate a patch on a scratch clone of /repo, leaving /repo, .build and evidence/ untouched.
  evalcopy.py <patch.diff> <tag> <id> [<id> ...] [--tier quick|thorough]
Prints one line per check:  <tag> <id> exit=<n> <first key or last stderr line>
The clone, its build directory and its evidence directory live under /tmp/evalcopy_<tag> and are removed at the end."""
import json
import os
import re
import shutil
import subprocess
import sys

ENV = dict(os.environ, GOFLAGS="-mod=mod", GOPROXY="off", GOSUMDB="off", GOTOOLCHAIN="local")


def main():
    args = sys.argv[1:]
    tier = "quick"
    if "--tier" in args:
        i = args.index("--tier")
        tier = args[i + 1]
        del args[i:i + 2]
    patch, tag, ids = os.path.abspath(args[0]), args[1], args[2:]
    root = "/tmp/evalcopy_" + tag
    shutil.rmtree(root, ignore_errors=True)
    os.makedirs(root)
    repo = os.path.join(root, "repo")
    out = {}
    try:
        subprocess.check_call(["git", "clone", "-q", "--local", "/repo", repo])
        if os.path.getsize(patch) > 0:
            p = subprocess.run(["git", "apply", patch], cwd=repo, capture_output=True, text=True)
            if p.returncode:
                print(tag, "PATCH DOES NOT APPLY", p.stderr.strip()[:300])
                return 2
        env = dict(ENV, VERIF_REPO=repo, VERIF_BUILD=os.path.join(root, "build"), VERIF_EVID=os.path.join(root, "evid"))
        os.makedirs(env["VERIF_EVID"])
        for pid in ids:
            r = subprocess.run(["./check", pid, "--tier", tier], cwd=os.path.dirname(os.path.dirname(os.path.abspath(__file__))), env=env, capture_output=True, text=True)
            keys = re.findall(r"key=(.*)", r.stderr)
            tail = [l for l in r.stderr.strip().splitlines() if l.strip()][-1:] if r.returncode == 2 else []
            out[pid] = {"exit": r.returncode, "keys": keys[:4]}
            print(tag, pid, "exit=%d" % r.returncode, (keys[:1] or tail or [""])[0][:200], flush=True)
            if r.returncode == 1:
                # keep the first replay file's text for triage
                m = re.search(r"VIOLATION property=\S+ replay=(\S+)", r.stdout)
                if m and os.path.exists(m.group(1)):
                    out[pid]["replay_head"] = open(m.group(1)).read()[:3000]
            if r.returncode == 2:
                out[pid]["stderr_tail"] = r.stderr[:1500] + "\n.....\n" + r.stderr[-1500:]
        json.dump(out, open("/tmp/evalcopy_%s.json" % tag, "w"), indent=1)
        return 0
    finally:
        shutil.rmtree(root, ignore_errors=True)


if __name__ == "__main__":
    sys.exit(main())
