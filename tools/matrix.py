#!/usr/bin/env python3
"""Run every seeded change against the quick check of the property it targets; write seeded/RESULTS.json."""
import json
import os
import re
import subprocess
import sys

os.chdir("/verif")
only = sys.argv[1:]
res_path = "seeded/RESULTS.json"
res = json.load(open(res_path)) if os.path.exists(res_path) else {}
for d in sorted(os.listdir("seeded")):
    if not os.path.isdir(os.path.join("seeded", d)) or not re.match(r"C\d\d", d):
        continue
    if only and d not in only and d.split("-")[0] not in only:
        continue
    pid = d.split("-")[0]
    p = subprocess.run([sys.executable, "tools/seeded.py", "eval", "seeded/" + d, pid, "quick"], capture_output=True, text=True)
    out = p.stdout
    m = re.search(r"exit=(\d+)", out)
    keys = re.findall(r"key=(.*)", out)
    res[d] = {"check": pid, "tier": "quick", "exit": int(m.group(1)) if m else None, "keys": keys[:4]}
    print(d, res[d]["exit"], keys[:1], flush=True)
    json.dump(res, open(res_path, "w"), indent=1)
