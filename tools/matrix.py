#!/usr/bin/env python3
"""Run every seeded change against the quick check of the property it targets, each on its own scratch clone of /repo
(tools/evalcopy.py), N at a time; write seeded/RESULTS.json.   matrix.py [-j N] [C04 C09-m1 ...]"""
import json
import os
import re
import subprocess
import sys
from concurrent.futures import ThreadPoolExecutor

os.chdir(os.path.dirname(os.path.dirname(os.path.abspath(__file__))))
args = sys.argv[1:]
jobs = 3
if "-j" in args:
    i = args.index("-j")
    jobs = int(args[i + 1])
    del args[i:i + 2]
only = args
res_path = "seeded/RESULTS.json"
res = json.load(open(res_path)) if os.path.exists(res_path) else {}
names = []
for d in sorted(os.listdir("seeded")):
    if not os.path.isdir(os.path.join("seeded", d)) or not re.match(r"C\d\d", d):
        continue
    if only and d not in only and d.split("-")[0] not in only:
        continue
    names.append(d)


def one(d):
    pid = d.split("-")[0]
    p = subprocess.run([sys.executable, "tools/evalcopy.py", "seeded/%s/patch.diff" % d, "sd_" + d, pid], capture_output=True, text=True)
    m = re.search(r"exit=(\d+) ?(.*)", p.stdout)
    jf = "/tmp/evalcopy_sd_%s.json" % d
    keys = []
    if os.path.exists(jf):
        keys = json.load(open(jf)).get(pid, {}).get("keys", [])
        os.remove(jf)
    return d, {"check": pid, "tier": "quick", "exit": int(m.group(1)) if m else None, "keys": keys[:4],
               "note": "" if m else (p.stdout + p.stderr)[-300:]}


with ThreadPoolExecutor(max_workers=jobs) as ex:
    for d, r in ex.map(one, names):
        res[d] = r
        print(d, r["exit"], r["keys"][:1] or r["note"], flush=True)
        json.dump(res, open(res_path, "w"), indent=1)
