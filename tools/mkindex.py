#!/usr/bin/env python3
"""Writes seeded/INDEX.md from seeded/*/meta.json and seeded/RESULTS.json."""
import json
import os

os.chdir("/verif/seeded")
res = json.load(open("RESULTS.json"))
first = {}
if os.path.exists("FIRST_RESULTS.json"):
    first = json.load(open("FIRST_RESULTS.json"))
rows = []
for d in sorted(x for x in os.listdir(".") if os.path.isdir(x)):
    m = json.load(open(os.path.join(d, "meta.json")))
    r = res.get(d, {})
    rows.append((d, m, r))
out = ["# Seeded changes", "",
       "Each directory holds `patch.diff` (apply with `git -C /repo apply`), the sub-agent's demonstration (`demo_test.go`, a Go test",
       "to copy into `pkg/` or `cmd/` that fails with the patch and passes without), the agent's own notes and `meta.json`.",
       "Every change was confirmed in a scratch clone (`tools/seeded.py confirm`): it builds, the repository's whole test suite",
       "passes with it, the demonstration fails with it and passes without it. `tools/matrix.py` applies each patch to a scratch clone",
       "of /repo and runs the quick check of the property it targets there (`tools/evalcopy.py`; /repo itself is never touched);",
       "the last column is that run (exit 1 = VIOLATION reported).",
       "",
       "`first` = outcome of the same check as it stood *before* the change was looked at (the honest detection rate of the machinery at",
       "that time); the checks were then strengthened where they missed (DESIGN.md 11.5) and `now` is the current outcome.", "",
       "| id | property | what the change does | what it needs to manifest | first | now | reported as |",
       "|----|----------|----------------------|---------------------------|-------|-----|-------------|"]
for d, m, r in rows:
    f = first.get(d, {}).get("exit")
    out.append("| %s | %s | %s | %s | %s | %s | %s |" % (
        d, m["property"], m["breaks"].replace("|", "\\|"), m["needs_to_manifest"].replace("|", "\\|"),
        {1: "caught", 0: "missed", 2: "check broke"}.get(f, "-"),
        {1: "caught", 0: "MISSED", 2: "check broke"}.get(r.get("exit"), "?"),
        (r.get("keys") or [""])[0].replace("|", "\\|")[:110]))
n = len(rows)
c = sum(1 for _, _, r in rows if r.get("exit") == 1)
fc = sum(1 for d, _, _ in rows if first.get(d, {}).get("exit") == 1)
out += ["", "Totals: %d seeded changes; caught at first sight %d; caught now %d." % (n, fc, c)]
open("INDEX.md", "w").write("\n".join(out) + "\n")
print(n, fc, c)
