#!/usr/bin/env python3
"""Round 5: writes seeded/<id>/meta.json from the sub-agent's notes (agent_meta.json) and copies the first outcome of
tools/matrix.py into seeded/FIRST_RESULTS.json (only for ids that have none yet).   r5meta.py <id> [<id> ...]"""
import json
import os
import sys

os.chdir("/verif/seeded")
res = json.load(open("RESULTS.json"))
first = json.load(open("FIRST_RESULTS.json"))
for d in sys.argv[1:]:
    a = json.load(open(os.path.join(d, "agent_meta.json")))
    m = {"id": d, "property": d.split("-")[0], "breaks": "%s (%s)" % (a.get("summary", "")[:600], a.get("site", "")),
         "needs_to_manifest": a.get("needs", "")[:500],
         "origin": "independent sub-agent given only the property text and its own clone of /repo (round 5: one change per "
                   "property, asked for a multi-step sequence, an unusual legal input, a boundary, a rare feature combination "
                   "or two cooperating sites; not the most obvious site)",
         "confirmed": {"commands": [
             "python3 tools/seeded.py confirm seeded/%s   # scratch clone: git apply patch.diff; go build ./...; go test -vet=off -count=1 ./... (passes); demo test copied into pkg/ (or cmd/) fails with the patch and passes without" % d,
             "python3 tools/matrix.py %s   # scratch clone with the patch: ./check %s --tier quick" % (d, d.split("-")[0])]}}
    json.dump(m, open(os.path.join(d, "meta.json"), "w"), indent=1)
    if d not in first and d in res:
        first[d] = {"exit": res[d]["exit"]}
json.dump(first, open("FIRST_RESULTS.json", "w"), indent=1)
