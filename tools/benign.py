#!/usr/bin/env python3
"""False-alarm audit: run quick checks against property-preserving changes (benign/<name>/patch.diff) on scratch
clones of /repo.  benign.py [-j N] [--ids C01,C02,...] [name ...]   ->  benign/RESULTS.json
Any exit code other than 0 needs triage: either the change is not benign for that property (move it to seeded/),
or the check demands more than the property states (correct the check)."""
import json
import os
import re
import subprocess
import sys
from concurrent.futures import ThreadPoolExecutor

os.chdir(os.path.dirname(os.path.dirname(os.path.abspath(__file__))))
ALL = ["C%02d" % i for i in range(1, 19)]
args = sys.argv[1:]
jobs = 2
ids = ALL
if "-j" in args:
    i = args.index("-j")
    jobs = int(args[i + 1])
    del args[i:i + 2]
if "--ids" in args:
    i = args.index("--ids")
    ids = args[i + 1].split(",")
    del args[i:i + 2]
names = args or sorted(d for d in os.listdir("benign") if os.path.isdir(os.path.join("benign", d)))
res_path = "benign/RESULTS.json"
res = json.load(open(res_path)) if os.path.exists(res_path) else {}


def one(name):
    p = subprocess.run([sys.executable, "tools/evalcopy.py", os.path.join("benign", name, "patch.diff"), "ben_" + name] + ids,
                       capture_output=True, text=True)
    out = {}
    for l in p.stdout.splitlines():
        m = re.match(r"\S+ (C\d\d) exit=(\d+) ?(.*)", l)
        if m:
            out[m.group(1)] = {"exit": int(m.group(2)), "note": m.group(3)}
    if not out:
        out["error"] = (p.stdout + p.stderr)[-400:]
    jf = "/tmp/evalcopy_ben_%s.json" % name
    if os.path.exists(jf):
        full = json.load(open(jf))
        for k, v in full.items():
            if v.get("exit") and k in out:
                out[k]["detail"] = v
        os.remove(jf)
    return name, out


with ThreadPoolExecutor(max_workers=jobs) as ex:
    for name, out in ex.map(one, names):
        res.setdefault(name, {}).update(out)
        bad = {k: v["exit"] for k, v in out.items() if isinstance(v, dict) and v.get("exit")}
        print(name, "ALARMS" if bad else "quiet", bad, flush=True)
        json.dump(res, open(res_path, "w"), indent=1)
