#!/bin/sh
# Build the framework from files on disk only (offline): harness binary + SANY parse of every spec module.
set -e
cd "$(dirname "$0")"
export GOFLAGS=-mod=mod GOPROXY=off GOSUMDB=off GOTOOLCHAIN=local
mkdir -p .build evidence
cp /repo/go.sum harness/go.sum
(cd harness && go build -tags verif -o ../.build/acvh ./cmd/acvh && go build -race -tags verif -o ../.build/acvh-race ./cmd/acvh)
rm -rf .build/sany && mkdir -p .build/sany && cp spec/*.tla spec/trace/*.tla .build/sany/
for f in .build/sany/*.tla; do
  (cd .build/sany && tla-sany "$(basename "$f")" >/dev/null 2>&1) || { echo "SANY failed on $f"; exit 1; }
done
rm -rf .build/sany
echo setup ok
